"""Reader side of C17: a simulated OS process (run through boot.py, so that the
store's files are read under the scenario's I/O plan) that loads stored
modules with the real FilesystemModuleLoader and/or compiles sources afresh,
and reports an observation (obs17.observe_module) of each.

argv[1] = plan (JSON): tree, cwd, seed, tasks [{op: load, name} | {op: compile, src, opt}], out.
"""
import contextlib
import io
import json
import os
import sys


def main():
    with open(sys.argv[1]) as f:
        plan = json.load(f)
    sys.meta_path[:] = [f for f in sys.meta_path if "editable" not in repr(f).lower()]
    # the harness directory must not be importable from here: a product module named like a
    # harness module (core, repo, lang ...) would be shadowed.  obs17 is loaded by file path.
    here = os.path.dirname(os.path.abspath(__file__))
    sys.path[:] = [p for p in sys.path if os.path.abspath(p or ".") != here]
    sys.path.insert(0, plan["tree"])
    import importlib.util

    spec = importlib.util.spec_from_file_location("obs17", os.path.join(here, "obs17.py"))
    obs17 = importlib.util.module_from_spec(spec)
    spec.loader.exec_module(obs17)
    os.chdir(plan["cwd"])

    buf = io.StringIO()
    out = []
    with contextlib.redirect_stdout(buf):
        from nsl import Compiler, LinearIR

        assert os.path.realpath(LinearIR.__file__).startswith(os.path.realpath(plan["tree"])), LinearIR.__file__
        for t in plan["tasks"]:
            try:
                if t["op"] == "load":
                    m = LinearIR.FilesystemModuleLoader().Load(t["name"])
                else:
                    r = Compiler.Compiler().Compile(t["src"], {"optimize": bool(t["opt"])})
                    if r is None:
                        out.append({"status": "reject"})
                        continue
                    m = r.IRModule
            except SystemExit:
                out.append({"status": "exit"})
                continue
            except Exception as e:
                out.append({"status": "exc", "exc": type(e).__name__, "msg": str(e)[:200]})
                continue
            try:
                ob = obs17.observe_module(m, plan["seed"], with_text=bool(plan.get("texts")))
                out.append({"status": "ok", "obs": ob})
            except Exception as e:
                out.append({"status": "observe-exc", "exc": type(e).__name__, "msg": str(e)[:200]})
    tmp = plan["out"] + ".tmp"
    with open(tmp, "w") as f:
        json.dump({"results": out}, f)
    os.replace(tmp, plan["out"])


if __name__ == "__main__":
    main()
