"""Seeded generator of C16 scenarios: a program PI (functions with an acyclic
call graph, module-owned globals, module-local struct types and overloaded
non-exported helpers), a partition of PI into modules forming an import DAG,
the text layout of every module, and a schedule: compile order and mode,
re-compilations, links (which modules the host adds, in which order, through
which loader / command line), duplicate-definition steps, store generations,
and the observation history run on every linked program.

Generation never touches the system under test.
"""
from . import core

NAME_POOL = [
    "A", "B", "C", "D", "E", "lib", "m1", "Std", "core", "util", "mathx", "geo", "noise", "K9", "zeta", "omega",
    "Alpha", "beta", "q", "mod_a", "mod_b", "x1", "x2", "shade", "light", "bsdf", "tex", "ray", "cam", "post",
    "pre", "mid", "hi", "lo", "left", "right", "up", "down", "n0", "n1", "n2", "n3", "P", "Q", "R", "S_", "T",
    # names that are prefixes / case variants / digit variants of each other
    "a", "std", "libm", "lib2", "lib_", "Lib", "core2", "m", "m10", "m2", "tex2d", "Ray", "x", "x10",
]

TEMPLATES = ["expr", "expr", "loop", "branch", "glob", "glob", "struct", "array", "helper", "while", "vec", "local"]


def _int_arg(rng, params):
    ints = [n for n, t in params if t == "int"]
    c = rng.random()
    if ints and c < 0.5:
        return rng.choice(ints)
    if ints and c < 0.8:
        return f"({rng.choice(ints)} + {rng.randint(0, 4)})"
    return str(rng.randint(0, 9))


def _floats(params):
    return [n for n, t in params if t == "float"] + [f"{n}[{k}]" for n, t in params if t == "float4" for k in (1, 3)]


def _vec_arg(rng, params):
    return "float4(" + ", ".join(_float_arg(rng, params) for _ in range(4)) + ")"


def _float_arg(rng, params):
    fl = _floats(params)
    c = rng.random()
    if fl and c < 0.5:
        return rng.choice(fl)
    if fl and c < 0.8:
        return f"({rng.choice(fl)} * {rng.choice(['0.5', '1.5', '0.25'])})"
    return rng.choice(["0.5", "1.5", "2.5", "3.25", "0.75"])


def gen_program(rng, sw):
    """Functions with call DAG + module assignment."""
    shape = sw["shape"]
    funcs = []
    if shape == "chain":
        nm = rng.randint(2, 7 if sw.get("tier") == "thorough" else 5)
        nf = nm
    elif shape == "diamond":
        nm, nf = 4, 4
    elif shape == "fanin":
        nm = rng.randint(3, 5)
        nf = nm
    else:
        nf = rng.randint(3, 12 if sw.get("tier") == "thorough" else 8)
        nm = rng.randint(2, min(7 if sw.get("tier") == "thorough" else 5, nf))
    # non-exported, overloaded helper families: part of PI like any other function, so a
    # partition may put the overloads of one family into different modules
    SIGS = [[["x", "int"]], [["x", "float"]], [["x", "int"], ["y", "int"]], [["x", "int"], ["y", "float"]]]
    if rng.random() < 0.5:
        # long parameter lists (long mangled names)
        SIGS = SIGS + [
            [["x", "int"]] + [[f"i{k}", "int"] for k in range(rng.randint(8, 11))],
            [["x", "float"]] + [[f"f{k}", "float"] for k in range(rng.randint(6, 11))],
            [["x", "int"]] + [[f"m{k}", rng.choice(["int", "float"])] for k in range(rng.randint(7, 10))],
        ]
    nh = 0
    if shape == "random" and sw.get("free_helpers"):
        for fam in range(rng.randint(1, 2)):
            for sig in rng.sample(SIGS, rng.randint(1, 3)):
                funcs.append({"name": f"w{fam}", "export": False, "params": [list(p) for p in sig],
                              "ret": sig[0][1], "k": rng.randint(1, 9)})
        nh = len(funcs)
        nf += nh
        nm = min(5, max(nm, 2))
    for i in range(nh, nf):
        np_ = rng.choice([1, 1, 2, 2, 3])
        params = [["a", "int"]]
        if np_ >= 2:
            params.append(["b", rng.choice(["float", "float", "int"])])
        if np_ >= 3:
            params.append(["c", rng.choice(["int", "float"])])
        if rng.random() < 0.12:
            params = [["b", "float"]]
        if rng.random() < 0.15:
            params.append(["v", "float4"])  # vector-typed parameter (also across module boundaries)
        ret = rng.choice(["int", "int", "float"])
        funcs.append({"name": f"f{i - nh}", "export": True, "params": params, "ret": ret, "k": rng.randint(1, 9)})
    # call graph
    for i, f in enumerate(funcs):
        if shape == "chain":
            callees = [i - 1] if i > 0 else []
        elif shape == "diamond":
            callees = {0: [], 1: [0], 2: [0], 3: [1, 2]}[i]
        elif shape == "fanin":
            callees = [0] if i > 0 else []
            if i > 1 and rng.random() < 0.3:
                callees.append(rng.randrange(1, i))
        elif not f["export"]:
            callees = []
        else:
            callees = [j for j in range(i) if rng.random() < sw["call_density"]]
        f["calls"] = []
        for j in callees:
            g = funcs[j]
            args = [(_int_arg(rng, f["params"]) if t == "int" else _vec_arg(rng, f["params"]) if t == "float4"
                     else _float_arg(rng, f["params"])) for _n, t in g["params"]]
            f["calls"].append({"f": j, "args": args})
    # module assignment, monotone wrt calls (module ids ascending = topological)
    if shape in ("chain", "diamond", "fanin"):
        mod = list(range(nf))
    else:
        mod = []
        for i, f in enumerate(funcs):
            lo = max([mod[c["f"]] for c in f["calls"]], default=0)
            mod.append(rng.randint(lo, nm - 1))
    used = sorted(set(mod))
    remap = {m: k for k, m in enumerate(used)}
    for i, f in enumerate(funcs):
        f["mod"] = remap[mod[i]]
    return funcs, len(used)


def gen_scenario(seed, tier="quick"):
    rng = core.sub_rng(seed, "c16.sched")
    swr = core.sub_rng(seed, "c16.swarm")
    sw = {
        "shape": swr.choice(["random", "random", "random", "chain", "diamond", "fanin"]),
        "call_density": swr.choice([0.25, 0.45, 0.7]),
        "restricted": swr.random() < 0.35,  # imports first, one feature at a time (keeps single defects reachable)
        "globals": swr.choice([0.0, 0.3, 0.6]),
        "shared_globals": swr.random() < 0.45,
        "extra_imports": swr.choice([0.0, 0.3, 0.5]),
        "cli": swr.random() < (0.05 if tier == "quick" else 0.07),
        "dup": swr.random() < 0.18,
        "generations": 2 if swr.random() < 0.2 else 1,
        "recompile": swr.random() < 0.2,
        "suffix_names": swr.random() < 0.1,
        "links": swr.choice([1, 2, 2, 3]),
        "helpers": swr.random() < 0.4,
        "free_helpers": swr.random() < 0.3,
        "tier": tier,
    }
    if sw["free_helpers"] and sw["shape"] == "random" and swr.random() < 0.25:
        sw["cli"] = True
    prng = core.sub_rng(seed, "c16.prog")
    funcs, nm = gen_program(prng, sw)
    names = prng.sample(NAME_POOL, nm)
    if swr.random() < 0.3:
        # a family of near-identical names: one base with different short tails (plural,
        # trailing letters of ".nslir", digits, case) - what name normalisation tends to merge
        base = prng.choice(["util", "shader", "color", "lib", "m", "Mod", "geo", "x", "sin"])
        tails = prng.sample(["", "s", "r", "l", "n", "i", "ls", "rs", "ir", "2", "_", "er", "S", "ss", "nsl"], nm)
        names = [base + t for t in tails]
    modules = []
    for m in range(nm):
        modules.append({"name": names[m], "imports": [], "place": [], "struct": None, "helpers": [], "layout": "std"})
    globs = []
    # module-owned globals
    for m in range(nm):
        if prng.random() < sw["globals"]:
            t = prng.choice(["int", "int", "float", "int[3]", "float4", "struct"])
            if t == "struct":
                t = f"G{m}"  # a struct type defined by the module that owns the global
            globs.append({"name": f"g_{names[m]}", "type": t, "mod": m})
    # templates
    for i, f in enumerate(funcs):
        m = f["mod"]
        tm = prng.choice(TEMPLATES) if f["export"] else "expr"
        own = [g for g in globs if g["mod"] == m]
        lower = [g for g in globs if g["mod"] < m]
        f["glob"] = None
        if tm == "glob":
            cands = list(own)
            if sw["shared_globals"] and lower and prng.random() < 0.75:
                cands = lower
            cands = [g for g in cands if g["type"] in ("int", "float", "int[3]", "float4") or g["type"].startswith("G")]
            if cands:
                f["glob"] = prng.choice(cands)["name"]
            else:
                tm = "expr"
        if tm == "struct":
            modules[m]["struct"] = f"S{m}"
        if tm == "helper":
            if not sw["helpers"]:
                tm = "expr"
            elif not modules[m]["helpers"]:
                modules[m]["helpers"] = [
                    {"name": f"h{m}", "params": [["x", "int"]], "ret": "int", "k": prng.randint(2, 5)},
                    {"name": f"h{m}", "params": [["x", "float"]], "ret": "float", "k": prng.randint(2, 5)},
                    {"name": f"h{m}", "params": [["x", "int"], ["y", "int"]], "ret": "int", "k": prng.randint(2, 5)},
                ][: prng.randint(1, 3)]
        f["tmpl"] = tm
        f["n"] = prng.randint(1, 4)
        f["alias_local"] = None
        if tm == "local" and prng.random() < 0.4:
            # a local that carries the name of a function defined elsewhere (legal: it shadows it here)
            others = [g["name"] for j, g in enumerate(funcs) if g["name"] != f["name"] and g.get("export", True)
                      and not any(c["f"] == j for c in f["calls"]) and g["name"] not in [p_[0] for p_ in f["params"]]]
            if others:
                f["alias_local"] = prng.choice(others)
    # imports
    gmod = {g["name"]: g["mod"] for g in globs}
    for m in range(nm):
        need = set()
        for f in funcs:
            if f["mod"] != m:
                continue
            for c in f["calls"]:
                if funcs[c["f"]]["mod"] != m:
                    need.add(funcs[c["f"]]["mod"])
            if f["glob"] and gmod[f["glob"]] != m:
                need.add(gmod[f["glob"]])
        modules[m]["extra"] = []
        for x in range(m):
            if x not in need and prng.random() < sw["extra_imports"]:
                need.add(x)
                modules[m]["extra"].append(x)
        imps = sorted(need)
        prng.shuffle(imps)
        modules[m]["imports"] = imps
        modules[m]["place"] = [prng.choice(["first", "first", "mid", "last"]) for _ in imps]
        if sw["restricted"]:
            modules[m]["place"] = ["first" for _ in imps]
        modules[m]["suffix"] = bool(sw["suffix_names"] and prng.random() < 0.5)
        # the same import written twice (e.g. after concatenating source files) is harmless
        modules[m]["repeat_import"] = (prng.randrange(len(imps)) if imps and not sw["restricted"] and prng.random() < 0.12
                                       else None)
    if swr.random() < 0.1 and not sw["restricted"]:
        # an umbrella module without functions: nothing but imports of the former roots
        # (it is a node of the import DAG like any other, and the only one the host adds)
        imported = {x for mm in modules for x in mm["imports"]}
        former_roots = [m for m in range(nm) if m not in imported]
        uname = prng.choice([n for n in NAME_POOL if n not in names])
        names.append(uname)
        modules.append({"name": uname, "imports": former_roots, "place": ["first"] * len(former_roots), "struct": None,
                        "helpers": [], "layout": "std", "suffix": False, "repeat_import": None, "umbrella": True})
        nm += 1
    # generations: per generation a constant offset per function
    gens = []
    for gno in range(sw["generations"]):
        # from the second generation on, the module names may be rotated among the
        # modules: the same file names then hold other modules (stale by-name caches)
        gens.append({"dk": [0 if gno == 0 else prng.randint(1, 50) for _ in funcs],
                     "rot": 0 if gno == 0 or prng.random() < 0.5 else prng.randint(1, max(1, nm - 1))})
    # schedule
    steps = []
    importers = {m: [x for x in range(nm) if m in modules[x]["imports"]] for m in range(nm)}
    roots = [m for m in range(nm) if not importers[m]]
    for gno in range(len(gens)):
        # compile order: a seeded topological order
        done = []
        left = set(range(nm))
        while left:
            ready = sorted(m for m in left if all(x in done for x in modules[m]["imports"]))
            m = rng.choice(ready)
            left.discard(m)
            done.append(m)
            how = "cli" if (sw["cli"] and rng.random() < 0.7) else "inproc"
            steps.append({"op": "compile", "gen": gno, "mod": m, "how": how, "hs": rng.randint(0, 2 ** 31 - 1), "variant": 0})
        recompile_step = None
        if sw["recompile"] and nm > 1:
            # a module is compiled again with changed bodies (same signatures)
            # after its importers were compiled; the link must see the latest one
            m = rng.choice([x for x in range(nm)])
            with_extra = [x for x in range(nm) if modules[x].get("extra")]
            if with_extra and rng.random() < 0.6:
                m = rng.choice(with_extra)  # (an odd variant number drops one of its unused imports)
            recompile_step = {"op": "compile", "gen": gno, "mod": m, "how": "inproc", "hs": 0, "variant": rng.randint(1, 40)}
            if rng.random() < 0.5:
                steps.append(recompile_step)
                recompile_step = None
            # else: the re-compilation happens *between* two links; the host keeps the module
            # objects it already holds, so one root object gets linked against both versions
        n_links = sw["links"] + (1 if recompile_step else 0)
        for li in range(n_links):
            if li == 1 and recompile_step:
                steps.append(recompile_step)
            extra = [m for m in range(nm) if m not in roots and rng.random() < (0.12 if li == 0 else 0.05)]
            add = roots + extra
            rng.shuffle(add)
            loader = rng.choice(["fs", "fs", "mem", "memfile", "default"])
            via = "inproc"
            if sw["cli"] and len(roots) == 1 and not extra and rng.random() < 0.6:
                via = "nslr"
                loader = "fs"
            steps.append(
                {
                    "op": "link",
                    "gen": gno,
                    "add": add,
                    "addsrc": rng.choice(["mem", "file"]),
                    "loader": loader,
                    "via": via,
                    "hs": rng.randint(0, 2 ** 31 - 1),
                    # after the link the host tries to add a second definition to the very same linker
                    "dup_after": rng.random() < 0.12,
                }
            )
        if rng.random() < 0.06:
            # beyond-statement probes P5 (tallied, never judged): Link() twice on one linker;
            # a module file missing at link time
            steps.append({"op": "probe", "gen": gno, "kind": rng.choice(["relink", "missing-module"]),
                          "victim": rng.randrange(nm)})
        if sw["dup"] and gno == 0:
            kinds = ["func"]
            if globs:
                kinds.append("global")
            steps.append(
                {
                    "op": "dup",
                    "gen": gno,
                    "kind": rng.choice(kinds),
                    "where": rng.choice(["added-last", "added-first", "imported"]),
                    "victim": rng.randrange(len(funcs)),
                    "gvictim": rng.randrange(len(globs)) if globs else 0,
                    "loader": rng.choice(["fs", "mem"]),
                }
            )
    # observation history
    hrng = core.sub_rng(seed, "c16.hist")
    hist = []
    for _ in range(hrng.randint(4, 12)):
        i = hrng.choice([j for j, x in enumerate(funcs) if x["export"]])
        f = funcs[i]
        args = {}
        for n, t in f["params"]:
            args[n] = (hrng.randint(-5, 9) if t == "int" else [hrng.randint(-8, 8) * 0.25 for _ in range(4)]
                       if t == "float4" else hrng.randint(-8, 8) * 0.25)
        hist.append({"f": f["name"], "args": args})
    ginit = {}
    for g in globs:
        if g["type"] == "int":
            ginit[g["name"]] = hrng.randint(-5, 5)
        elif g["type"] == "float":
            ginit[g["name"]] = hrng.randint(-8, 8) * 0.25
        elif g["type"] == "float4":
            ginit[g["name"]] = [hrng.randint(-8, 8) * 0.25 for _ in range(4)]
        elif g["type"].startswith("G"):
            k = g["type"][1:]
            ginit[g["name"]] = {f"ga{k}": hrng.randint(-5, 5), f"gb{k}": hrng.randint(-8, 8) * 0.25}
        else:
            ginit[g["name"]] = [hrng.randint(-5, 5) for _ in range(3)]
    return {
        "kind": "c16",
        "seed": seed,
        "funcs": funcs,
        "modules": modules,
        "globals": globs,
        "gens": gens,
        "steps": steps,
        "hist": hist,
        "ginit": ginit,
        "swarm": sw,
    }


# ------------------------------------------------------------------ printing


def _call_src(funcs, c):
    return f"{funcs[c['f']]['name']}(" + ", ".join(c["args"]) + ")"


def _value_expr(sc, f, k):
    """Expression of f's return type built from its parameters, its constant
    and all of its calls."""
    funcs = sc["funcs"]
    if f["ret"] == "int":
        ints = [n for n, t in f["params"] if t == "int"]
        e = f"({ints[0]} + {k})" if ints else str(k)
        if not f.get("export", True) and len(ints) > 1:
            e = f"(({ints[0]} - {ints[1]}) + {k})"
        for c in f["calls"]:
            g = funcs[c["f"]]
            if g["ret"] == "int":
                e = f"({e} + {_call_src(funcs, c)})"
        return e
    fl = _floats(f["params"])
    e = f"({fl[0]} + {k}.5)" if fl else f"{k}.25"
    for c in f["calls"]:
        e = f"({e} + {_call_src(funcs, c)})"
    return e


def _side_calls(sc, f):
    """Calls whose value cannot enter an int expression (float callee from an
    int function): evaluated into a local float that is otherwise unused."""
    funcs = sc["funcs"]
    out = []
    if f["ret"] == "int":
        for n, c in enumerate(f["calls"]):
            if funcs[c["f"]]["ret"] != "int":
                out.append(f"  float w{n} = {_call_src(funcs, c)};\n")
    return "".join(out)


def func_src(sc, i, dk=0, variant=0):
    f = sc["funcs"][i]
    k = f["k"] + dk + variant
    params = ", ".join(f"{t} {n}" for n, t in f["params"])
    head = f"{'export ' if f.get('export', True) else ''}function {f['name']}({params}) -> {f['ret']} {{\n"
    val = _value_expr(sc, f, k)
    side = _side_calls(sc, f)
    tm = f.get("tmpl", "expr")
    rt = f["ret"]
    zero = "0" if rt == "int" else "0.5"
    m = f["mod"]
    n = f.get("n", 2)
    if tm == "loop":
        body = (
            f"  {rt} s = {zero};\n  for (int i = 0; i < {n}; ++i) {{\n    s = (s + {val});\n  }}\n  return s;\n"
        )
    elif tm == "branch":
        ints = [p for p, t in f["params"] if t == "int"]
        cond = f"({ints[0]} > {n})" if ints else f"({_floats(f['params'])[0]} > {n}.5)"
        body = f"  if ({cond}) {{\n    return {val};\n  }}\n  return ({val} + {zero if rt == 'float' else '7'});\n"
    elif tm == "glob" and f.get("glob"):
        g = f["glob"]
        gt = next(x["type"] for x in sc["globals"] if x["name"] == g)
        if gt == "int[3]":
            body = f"  {g}[{n % 3}] = ({g}[{n % 3}] + {k});\n  {rt} r = {val};\n  return r;\n"
            if rt == "int":
                body = f"  {g}[{n % 3}] = ({g}[{n % 3}] + {k});\n  int r = ({val} + {g}[{(n + 1) % 3}]);\n  return r;\n"
        elif gt == "float4":
            body = f"  {g}[{n % 4}] = ({g}[{n % 4}] + {k}.5);\n  {rt} r = {val};\n"
            body += f"  return (r + {g}[{(n + 1) % 4}]);\n" if rt == "float" else "  return r;\n"
        elif gt.startswith("G"):
            gm = gt[1:]
            body = f"  {g}.ga{gm} = ({g}.ga{gm} + {k});\n  {g}.gb{gm} = ({g}.gb{gm} + 0.5);\n  {rt} r = {val};\n"
            body += f"  return (r + {g}.ga{gm});\n" if rt == "int" else f"  return (r + {g}.gb{gm});\n"
        elif gt == "int":
            body = f"  {g} = ({g} + {k});\n  {rt} r = {val};\n"
            body += f"  return (r + {g});\n" if rt == "int" else "  return r;\n"
        else:
            body = f"  {g} = ({g} + {k}.5);\n  {rt} r = {val};\n"
            body += f"  return (r + {g});\n" if rt == "float" else "  return r;\n"
    elif tm == "struct":
        fld = f"q{m}" if rt == "int" else f"r{m}"
        body = f"  S{m} s;\n  s.{fld} = {val};\n  return (s.{fld} + {zero if rt == 'float' else '3'});\n"
    elif tm == "array":
        body = (
            f"  {rt}[3] q;\n  q[1] = {val};\n  q[2] = (q[1] + {zero if rt == 'float' else '1'});\n"
            f"  return (q[1] + q[2]);\n"
        )
    elif tm == "helper" and sc["modules"][m]["helpers"]:
        hs = sc["modules"][m]["helpers"]
        h = hs[n % len(hs)]
        args = []
        for pn, pt in h["params"]:
            if pt == "int":
                ints = [p for p, t in f["params"] if t == "int"]
                args.append(ints[0] if ints else str(n))
            else:
                fl = _floats(f["params"])
                args.append(fl[0] if fl else "1.5")
        call = f"{h['name']}(" + ", ".join(args) + ")"
        if h["ret"] == "float" and rt == "int":
            body = f"  float hw = {call};\n  return {val};\n"
        else:
            body = f"  return ({val} + {call});\n"
    elif tm == "while":
        body = (
            f"  int cn = 0;\n  {rt} s = {zero};\n  while ((cn < {n})) {{\n    cn = (cn + 1);\n    s = (s + {val});\n  }}\n"
            f"  return s;\n"
        )
    elif tm == "vec" and rt == "float":
        body = f"  float4 vv = float4(1.5, 2.5, 3.5, 4.5);\n  vv.y = {val};\n  return vv[1];\n"
    elif tm == "local":
        u = f.get("alias_local") or "u"
        body = f"  {rt} r = {val};\n  {rt} {u} = (r + {zero if rt == 'float' else '2'});\n  return {u};\n"
    else:
        body = f"  return {val};\n"
    return head + side + body + "}\n"


def helper_src(h):
    params = ", ".join(f"{t} {n}" for n, t in h["params"])
    if h["ret"] == "int":
        e = "(x * %d)" % h["k"] if len(h["params"]) == 1 else "((x - y) + %d)" % h["k"]
    else:
        e = "(x * %d.5)" % h["k"]
    return f"function {h['name']}({params}) -> {h['ret']} {{\n  return {e};\n}}\n"


def import_name(sc, m):
    mod = sc["modules"][m]
    return mod["name"] + (".nslir" if mod.get("suffix") else "")


def module_src(sc, m, gen=0, variant=0):
    mod = sc["modules"][m]
    dk = sc["gens"][gen]["dk"]
    head = []
    if mod.get("struct"):
        head.append(f"struct {mod['struct']} {{ int q{m}; float r{m}; }}\n")
    for g in sc["globals"]:
        if g["mod"] == m:
            if g["type"].startswith("G"):
                k = g["type"][1:]
                head.append(f"struct {g['type']} {{ int ga{k}; float gb{k}; }}\n")
            head.append(f"{g['type']} {g['name']};\n")
    parts = [helper_src(h) for h in mod["helpers"]]
    parts += [func_src(sc, i, dk[i], variant) for i, f in enumerate(sc["funcs"]) if f["mod"] == m]
    first, mid, last = [], [], []
    for k, (x, place) in enumerate(zip(mod["imports"], mod["place"])):
        line = f'import "{import_name(sc, x)}";\n'
        (first if place == "first" else mid if place == "mid" else last).append(line)
        if mod.get("repeat_import") == k:
            last.append(line)
    if len(parts) < 2:
        # no "between two functions" position: put them between head and functions
        return "".join(first) + "".join(head) + "".join(mid) + "".join(parts) + "".join(last)
    return "".join(first) + "".join(head) + parts[0] + "".join(mid) + "".join(parts[1:]) + "".join(last)


def single_src(sc, gen=0, variants=None):
    """PI as one module (the reference)."""
    variants = variants or {}
    dk = sc["gens"][gen]["dk"]
    out = []
    for m, mod in enumerate(sc["modules"]):
        if mod.get("struct"):
            out.append(f"struct {mod['struct']} {{ int q{m}; float r{m}; }}\n")
    for g in sc["globals"]:
        if g["type"].startswith("G"):
            k = g["type"][1:]
            out.append(f"struct {g['type']} {{ int ga{k}; float gb{k}; }}\n")
        out.append(f"{g['type']} {g['name']};\n")
    for m, mod in enumerate(sc["modules"]):
        for h in mod["helpers"]:
            out.append(helper_src(h))
    for i, f in enumerate(sc["funcs"]):
        out.append(func_src(sc, i, dk[i], variants.get(f["mod"], 0)))
    return "".join(out)


def view(sc, gen):
    """The scenario as generation `gen` sees it (module names rotated)."""
    rot = sc["gens"][gen].get("rot", 0) if gen < len(sc["gens"]) else 0
    if not rot:
        return sc
    v = dict(sc)
    names = [m["name"] for m in sc["modules"]]
    sufs = [m.get("suffix") for m in sc["modules"]]
    n = len(names)
    v["modules"] = [dict(m, name=names[(i + rot) % n], suffix=sufs[(i + rot) % n]) for i, m in enumerate(sc["modules"])]
    return v


def well_formed(sc):
    """The partition is legal: module ids are a topological order of the
    import graph and every cross-module reference is covered by an import."""
    funcs, mods = sc["funcs"], sc["modules"]
    nm = len(mods)
    gmod = {g["name"]: g["mod"] for g in sc["globals"]}
    if len({m["name"] for m in mods}) != nm:
        return False
    for m, mod in enumerate(mods):
        if len(mod["imports"]) != len(mod["place"]) or len(set(mod["imports"])) != len(mod["imports"]):
            return False
        if any(not (0 <= x < m) for x in mod["imports"]):
            return False
    for i, f in enumerate(funcs):
        if not (0 <= f["mod"] < nm):
            return False
        for c in f["calls"]:
            if not (0 <= c["f"] < i):
                return False
            g = funcs[c["f"]]
            if len(c["args"]) != len(g["params"]):
                return False
            if g["mod"] != f["mod"] and g["mod"] not in mods[f["mod"]]["imports"]:
                return False
        if f.get("glob"):
            if f["glob"] not in gmod:
                return False
            if gmod[f["glob"]] != f["mod"] and gmod[f["glob"]] not in mods[f["mod"]]["imports"]:
                return False
        if f.get("tmpl") == "struct" and not mods[f["mod"]].get("struct"):
            return False
    for m in range(nm):
        if not any(f["mod"] == m for f in funcs) and not mods[m].get("umbrella"):
            return False
    sigs = [(f["name"], tuple(t for _n, t in f["params"])) for f in funcs]
    if len(set(sigs)) != len(sigs):
        return False
    if not any(f.get("export", True) for f in funcs):
        return False
    return True
