"""Observation of an IR module for C17: listing (function order included),
globals, imports, metadata signatures, and VM behaviour of every exported
function on seeded type-correct inputs.  Imported both by the harness worker
(as sim.obs17) and by the reader child process (as plain obs17); nsl must
already be importable.
"""
import copy
import hashlib
import io
import random
import re
import sys


STEP_BUDGET = 300000
_counter = {"n": 0, "limit": None, "installed": False}


class StepBudget(Exception):
    """An invocation used more VM line events than the budget (treated as an
    outcome like any other exception class: both sides must agree)."""


def _install_budget():
    """LINE events in nsl/VM.py code objects (sys.monitoring): a deterministic
    cut-off for inputs on which a program does not terminate."""
    if _counter["installed"]:
        return
    _counter["installed"] = True
    import sys
    import types

    import nsl.VM as vmmod

    mon = sys.monitoring
    tool = 3
    try:
        mon.use_tool_id(tool, "nslsim-obs")
    except ValueError:
        return

    def on_line(code, line):
        c = _counter
        if c["limit"] is None:
            return
        c["n"] += 1
        if c["n"] > c["limit"]:
            c["limit"] = None
            raise StepBudget()

    mon.register_callback(tool, mon.events.LINE, on_line)

    def walk(code):
        mon.set_local_events(tool, code, mon.events.LINE)
        for k in code.co_consts:
            if isinstance(k, types.CodeType):
                walk(k)

    for v in list(vars(vmmod).values()):
        if isinstance(v, type) and v.__module__ == vmmod.__name__:
            for a in list(vars(v).values()):
                fn = getattr(a, "__func__", a)
                if isinstance(fn, types.FunctionType):
                    walk(fn.__code__)


def _s(x):
    """str() without object addresses (a class without __str__ prints one)."""
    return re.sub(r" at 0x[0-9a-fA-F]+", "", str(x))


def _depth():
    f = sys._getframe()
    n = 0
    while f is not None:
        n += 1
        f = f.f_back
    return n


def _sha(s):
    return hashlib.sha256(s.encode() if isinstance(s, str) else s).hexdigest()[:16]


def gen_value(t, rng):
    """A value of (LinearIR or front-end) type t in the VM's representation."""
    from nsl import LinearIR

    def scalar(name):
        if "float" in name:
            return rng.randint(-12, 12) * 0.25
        if "uint" in name:
            return rng.randint(0, 9)
        return rng.randint(-6, 9)

    if isinstance(t, LinearIR.Type):
        if t.IsScalar():
            return scalar(str(t))
        if t.IsVector():
            return [scalar(str(t.ElementType)) for _ in range(t.Size)]
        if t.IsMatrix():
            return [[scalar(str(t.ElementType)) for _ in range(t.ColumnCount)] for _ in range(t.RowCount)]
        if t.IsArray():
            def build(sizes):
                if not sizes:
                    return gen_value(t.ElementType, rng)
                return [build(sizes[1:]) for _ in range(sizes[0])]

            return build(list(t.Size))
        if t.IsStructure():
            return {k: gen_value(v, rng) for k, v in t.Fields.items()}
        raise TypeError(str(t))
    # front-end type (globals keep nsl.types objects)
    if hasattr(t, "GetMembers"):
        mem = t.GetMembers()
        return {k: gen_value(mem.GetFieldType(k), rng) for k in list(mem.GetSymbolNames())}
    if t.IsArray():
        def build(sizes):
            if not sizes:
                return gen_value(t.GetComponentType(), rng)
            return [build(sizes[1:]) for _ in range(sizes[0])]

        return build(list(t.GetSize()))
    if t.IsPrimitive():
        if t.IsScalar():
            return scalar(t.GetName())
        if t.IsVector():
            return [scalar(t.GetComponentType().GetName()) for _ in range(t.GetComponentCount())]
        if t.IsMatrix():
            return [
                [scalar(t.GetComponentType().GetName()) for _ in range(t.GetColumnCount())]
                for _ in range(t.GetRowCount())
            ]
    raise TypeError(str(t))


def jsonable(v):
    if isinstance(v, dict):
        return {str(k): jsonable(x) for k, x in v.items()}
    if isinstance(v, (list, tuple)):
        return [jsonable(x) for x in v]
    if isinstance(v, bool):
        return int(v)
    if isinstance(v, float):
        return v if v == v and abs(v) != float("inf") else repr(v)
    if v is None or isinstance(v, (int, str)):
        return v
    return "<" + type(v).__name__ + ">"


def listing(module):
    from nsl import LinearIR

    out = io.StringIO()
    pr = LinearIR.InstructionPrinter(lambda *a, end="\n": print(*a, end=end, file=out))
    for f in module.Functions.values():
        pr.Print(f)
    return out.getvalue()


def observe_module(module, seed, n_inputs=3, with_text=False):
    from nsl import LinearIR, VM

    text = listing(module)
    ob = {
        "listing": _sha(text),
        "functions": list(module.Functions.keys()),
        "globals": [[k, _s(v)] for k, v in module.Globals.items()],
        "imports": sorted(module.Imports),
        "metadata": {
            "functions": [f.GetMangledName() + "|" + _s(f) + "|" + ",".join(f"{k}:{_s(v)}" for k, v in f.GetArgumentTypes().items())
                          + "|exported=" + str(bool(getattr(f, "exported", False)))
                          for f in module.Metadata.get("functions", [])],
            "types": {k: _s(v) for k, v in module.Metadata.get("types", {}).items()},
        },
    }
    if with_text:
        ob["text"] = text
    beh = []
    try:
        lk = LinearIR.Linker()  # as nslr.py and most hosts do: the linker's own default loader
        lk.AddModule(module)
        prog = lk.Link()
    except Exception as e:
        ob["behaviour"] = [["link", "exc", type(e).__name__]]
        ob["invocations"] = 0
        return ob
    n = 0
    _install_budget()
    for fname in sorted(module.Functions):
        if fname.startswith("@"):
            continue
        f = prog.Functions[fname]
        for k in range(n_inputs):
            rng = random.Random(f"{seed}/{fname}/{k}")
            try:
                args = {a: gen_value(t, rng) for a, t in f.Type.Arguments.items()}
                gl = {g: gen_value(t, rng) for g, t in prog.Globals.items()}
            except Exception as e:
                beh.append([fname, k, "unsupported-type", type(e).__name__])
                break
            vm = VM.VirtualMachine(prog)
            for g in sorted(gl):
                vm.SetGlobal(g, copy.deepcopy(gl[g]))
            _counter["n"] = 0
            _counter["limit"] = STEP_BUDGET
            # the same Python stack headroom whatever call depth this runs at (harness worker and
            # reader child sit at different depths); the process's own limit - which the product may
            # have changed - still decides how much that is
            old_limit = sys.getrecursionlimit()
            sys.setrecursionlimit(_depth() + max(old_limit - 40, 100))
            cut = False
            try:
                r = vm.Invoke(fname, **copy.deepcopy(args))
                res = ["ret", jsonable(r)]
            except (RecursionError, StepBudget) as e:
                # cut off by a resource bound, not by the program: where exactly is not part of the
                # observation (so neither is the state it leaves)
                res = ["exc", type(e).__name__]
                cut = True
            except Exception as e:
                res = ["exc", type(e).__name__]
            finally:
                _counter["limit"] = None
                sys.setrecursionlimit(old_limit)
            n += 1
            beh.append([fname, k, res, "cut" if cut else {g: jsonable(vm.GetGlobal(g)) for g in sorted(gl)}])
    ob["behaviour"] = beh
    ob["invocations"] = n
    return ob
