"""Body of one simulated OS process of C18 (and the reader side of C17): run
as a real child interpreter with an explicit PYTHONHASHSEED.  It imports nsl
from a private copy of the working tree (the editable-install finder is
removed, so nsl.parsetab resolves inside the copy), optionally makes the
package directory unwritable for PLY, and then compiles a history of (source,
options) jobs with a fresh Compiler() per job.

argv[1] = path of the plan (JSON); the result (JSON) goes to plan["out"].
"""
import builtins
import contextlib
import hashlib
import io
import json
import os
import pickle
import sys


def main():
    with open(sys.argv[1]) as f:
        plan = json.load(f)
    sys.meta_path[:] = [f for f in sys.meta_path if "editable" not in repr(f).lower()]
    tree = plan["tree"]
    sys.path.insert(0, tree)
    refused = {"n": 0}
    if plan.get("unwritable"):
        import ply.yacc

        def shim(file, mode="r", *a, **kw):
            if ("w" in mode or "a" in mode or "x" in mode) and os.path.realpath(str(file)).startswith(os.path.realpath(tree)):
                refused["n"] += 1
                raise PermissionError(13, "Permission denied (injected: read-only install)", str(file))
            return builtins.open(file, mode, *a, **kw)

        ply.yacc.open = shim
    if plan.get("clock_step") is not None:
        # the clock behind a seam: every reading advances simulated time by a per-process step
        # (nothing in nsl reads a clock today; code that starts to must not let it reach an output)
        import time as _time

        state = {"t": 1_700_000_000.0}

        def _now():
            state["t"] += plan["clock_step"]
            return state["t"]

        for name in ("time", "monotonic", "perf_counter", "process_time"):
            setattr(_time, name, _now)
        for name in ("time_ns", "monotonic_ns", "perf_counter_ns", "process_time_ns"):
            setattr(_time, name, lambda: int(_now() * 1e9))
    os.makedirs(plan["cwd"], exist_ok=True)
    os.chdir(plan["cwd"])
    result = {"obs": [], "boot": None, "table_regenerated": False, "table_write_refused": 0}
    buf = io.StringIO()
    try:
        with contextlib.redirect_stdout(buf), contextlib.redirect_stderr(buf):
            from nsl import Compiler, LinearIR

            assert os.path.realpath(Compiler.__file__).startswith(os.path.realpath(tree)), Compiler.__file__
            Compiler.Compiler()
        result["boot"] = "ok"
    except BaseException as e:  # a torn table cache ends here (probe)
        result["boot"] = "EXC:" + type(e).__name__
        _finish(plan, result, refused)
        return
    result["table_regenerated"] = "Generating LALR tables" in buf.getvalue()

    def listing(m):
        out = io.StringIO()
        pr = LinearIR.InstructionPrinter(lambda *a, end="\n": print(*a, end=end, file=out))
        for f in m.Functions.values():
            pr.Print(f)
        return out.getvalue()

    # compiler objects constructed up front (still unused = fresh when their turn comes)
    pre = []
    with contextlib.redirect_stdout(buf), contextlib.redirect_stderr(buf):
        for _ in range(plan.get("precreate", 0)):
            pre.append(Compiler.Compiler())
    # option dictionaries owned by the host and passed again and again (never copied)
    optobjs = [dict(x) for x in plan.get("optobjs", [])]

    def compile_one(src, opts, use_pre=False):
        b = io.StringIO()
        r = None
        seen = None
        if "$obj" in opts:
            o = optobjs[opts["$obj"]]
            o.update(opts.get("$set", {}))
            opts = o
            # what the dictionary holds when it is handed over (a compiler may have changed it earlier)
            seen = {k: v for k, v in o.items() if isinstance(v, (bool, int, float, str, type(None)))}
        elif "$literal_fresh" in opts:
            opts = dict(opts["$literal_fresh"])  # a brand-new dictionary with exactly these keys
        else:
            opts = dict(opts)
        with contextlib.redirect_stdout(b), contextlib.redirect_stderr(b):
            try:
                comp = pre.pop(0) if (use_pre and pre) else Compiler.Compiler()
                r = comp.Compile(src, opts)
            except SystemExit:
                return {"o": "EXIT", "opts_seen": seen}, None
            except Exception as e:
                return {"o": "EXC:" + type(e).__name__, "opts_seen": seen}, None
        if r is None:
            return {"o": "REJECT", "opts_seen": seen}, None
        text = listing(r.IRModule)
        ob = {"o": "ok", "ir": hashlib.sha256(text.encode()).hexdigest()[:16], "wasm": None, "opts_seen": seen}
        if plan.get("texts"):
            ob["text"] = text
        if r.WasmModule is not None:
            wb = io.BytesIO()
            try:
                r.WasmModule.WriteTo(wb)
                ob["wasm"] = hashlib.sha256(wb.getvalue()).hexdigest()[:16]
                if plan.get("texts"):
                    ob["wasm_hex"] = wb.getvalue().hex()
            except Exception as e:
                ob["wasm"] = "EXC:" + type(e).__name__
        return ob, r

    def build_libs(libs):
        for name, src in libs:
            ob, r = compile_one(src, {})
            if r is not None:
                if os.path.dirname(name):
                    os.makedirs(os.path.dirname(name), exist_ok=True)
                with open(name + ".nslir", "wb") as f:
                    pickle.dump(r.IRModule, f)
            result.setdefault("libs", []).append([name, ob["o"]])

    build_libs(plan.get("libs", []))
    for src, opts in plan["history"]:
        if src is None:
            if "chdir" in opts:
                # the process changes its working directory (its own module store there)
                os.makedirs(opts["chdir"], exist_ok=True)
                os.chdir(opts["chdir"])
            # the imported libraries are (re)built in the current directory
            build_libs(plan["lib_versions"][str(opts["relib"])])
            result["obs"].append({"o": "relib"})
            continue
        ob, _r = compile_one(src, opts, use_pre=True)
        result["obs"].append(ob)
    _finish(plan, result, refused)


def _finish(plan, result, refused):
    result["table_write_refused"] = refused["n"]
    tmp = plan["out"] + ".tmp"
    with open(tmp, "w") as f:
        json.dump(result, f)
    os.replace(tmp, plan["out"])


if __name__ == "__main__":
    main()
