"""Bring the system under test into the simulator: a private copy of /repo's
current working tree (nsl/, nslc.py, nslr.py) made at check time, imported
with the editable-install path finder removed so that *every* nsl module -
including the PLY table cache nsl/parsetab.py - resolves inside the copy.

Nothing is ever written into /repo, and nothing survives the check.
"""
import os
import shutil
import sys

from . import core

_TREE = None


def strip_editable_finder():
    sys.meta_path[:] = [f for f in sys.meta_path if "editable" not in repr(f).lower()]


_SKIP_TOP = {".git", "tests", "__pycache__", ".pytest_cache", ".hypothesis", "build", "dist", ".idea", ".code"}


def _copy_tree(src, dest, with_table):
    """Everything a checkout of the repository holds except its test-suite and VCS / cache
    directories: the drivers may import further top-level modules, the package may grow."""
    if os.path.exists(dest):
        shutil.rmtree(dest)
    os.makedirs(dest)
    drop = ["__pycache__", "parser.out", "*.pyc"] + ([] if with_table else ["parsetab.py"])
    for name in sorted(os.listdir(src)):
        if name in _SKIP_TOP or name.endswith(".egg-info"):
            continue
        sp, dp = os.path.join(src, name), os.path.join(dest, name)
        if os.path.isdir(sp):
            shutil.copytree(sp, dp, ignore=shutil.ignore_patterns(*drop), symlinks=True)
        elif os.path.isfile(sp) and not name.endswith((".nslir", ".wasm")):
            shutil.copy2(sp, dp)
    return dest


def make_tree(dest=None, with_table=False) -> str:
    """Copy the working tree.  The parser table cache is not copied (a fresh checkout has none);
    see warm()."""
    return _copy_tree(core.REPO, dest or os.path.join(core.scratch_root(), "tree"), with_table)


def clone_tree(src, dest, with_table=True):
    return _copy_tree(src, dest, with_table)


def activate(tree):
    """Make `import nsl` resolve to <tree>/nsl in this process (and in every
    process forked from it)."""
    global _TREE
    strip_editable_finder()
    for k in [k for k in sys.modules if k == "nsl" or k.startswith("nsl.")]:
        del sys.modules[k]
    if tree in sys.path:
        sys.path.remove(tree)
    sys.path.insert(0, tree)
    sys.pycache_prefix = os.path.join(core.scratch_root(), "pycache")
    sys.dont_write_bytecode = False
    import nsl  # noqa

    assert os.path.realpath(nsl.__path__[0]).startswith(os.path.realpath(tree)), (nsl.__path__, tree)
    _TREE = tree
    return tree


def warm():
    """Construct one parser so that PLY generates and writes its table into
    the private tree exactly once, before any worker is forked (sixteen first
    Compiler() calls at once would race on PLY's non-atomic table write)."""
    with core.Quiet():
        import nsl.Compiler

        nsl.Compiler.Compiler()  # public entry point only: builds the parser (and its table cache)
    import nsl.Compiler  # noqa
    import nsl.LinearIR  # noqa
    import nsl.VM  # noqa


def setup():
    """Copy + activate + warm; returns the environment dict handed to workers."""
    tree = make_tree()
    activate(tree)
    warm()
    return {"tree": tree, "scratch": core.scratch_root()}


def child_env(tree, hashseed=None, extra=None):
    """Environment for a simulated OS process."""
    env = {
        "PATH": os.environ.get("PATH", "/usr/bin:/bin"),
        "HOME": os.environ.get("HOME", "/root"),
        "LANG": "C.UTF-8",
        "PYTHONPATH": tree,
        "PYTHONPYCACHEPREFIX": os.path.join(core.scratch_root(), "pycache"),
        "PYTHONHASHSEED": str(hashseed if hashseed is not None else 0),
        "PYTHONIOENCODING": "utf-8",
    }
    if extra:
        env.update(extra)
    return env
