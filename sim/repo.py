"""Bring the system under test into the simulator: a private copy of /repo's
current working tree (nsl/, nslc.py, nslr.py) made at check time, imported
with the editable-install path finder removed so that *every* nsl module -
including the PLY table cache nsl/parsetab.py - resolves inside the copy.

Nothing is ever written into /repo, and nothing survives the check.
"""
import os
import shutil
import sys

from . import core

_TREE = None


def strip_editable_finder():
    sys.meta_path[:] = [f for f in sys.meta_path if "editable" not in repr(f).lower()]


def make_tree(dest=None, with_table=False) -> str:
    """Copy the working tree's python sources.  The parser table cache is not
    copied (a fresh checkout has none); see warm()."""
    dest = dest or os.path.join(core.scratch_root(), "tree")
    if os.path.exists(dest):
        shutil.rmtree(dest)
    os.makedirs(dest)
    ignore = shutil.ignore_patterns("__pycache__", "parser.out") if with_table else shutil.ignore_patterns(
        "__pycache__", "parsetab.py", "parser.out"
    )
    shutil.copytree(os.path.join(core.REPO, "nsl"), os.path.join(dest, "nsl"), ignore=ignore)
    for f in ("nslc.py", "nslr.py"):
        p = os.path.join(core.REPO, f)
        if os.path.exists(p):
            shutil.copy2(p, os.path.join(dest, f))
    return dest


def clone_tree(src, dest, with_table=True):
    if os.path.exists(dest):
        shutil.rmtree(dest)
    os.makedirs(dest)
    ignore = shutil.ignore_patterns("__pycache__", "parser.out") if with_table else shutil.ignore_patterns(
        "__pycache__", "parsetab.py", "parser.out"
    )
    shutil.copytree(os.path.join(src, "nsl"), os.path.join(dest, "nsl"), ignore=ignore)
    for f in ("nslc.py", "nslr.py"):
        p = os.path.join(src, f)
        if os.path.exists(p):
            shutil.copy2(p, os.path.join(dest, f))
    return dest


def activate(tree):
    """Make `import nsl` resolve to <tree>/nsl in this process (and in every
    process forked from it)."""
    global _TREE
    strip_editable_finder()
    for k in [k for k in sys.modules if k == "nsl" or k.startswith("nsl.")]:
        del sys.modules[k]
    if tree in sys.path:
        sys.path.remove(tree)
    sys.path.insert(0, tree)
    sys.pycache_prefix = os.path.join(core.scratch_root(), "pycache")
    sys.dont_write_bytecode = False
    import nsl  # noqa

    assert os.path.realpath(nsl.__path__[0]).startswith(os.path.realpath(tree)), (nsl.__path__, tree)
    _TREE = tree
    return tree


def warm():
    """Construct one parser so that PLY generates and writes its table into
    the private tree exactly once, before any worker is forked (sixteen first
    Compiler() calls at once would race on PLY's non-atomic table write)."""
    with core.Quiet():
        from nsl import parser as nslparser

        nslparser.NslParser()
    import nsl.Compiler  # noqa
    import nsl.LinearIR  # noqa
    import nsl.VM  # noqa


def setup():
    """Copy + activate + warm; returns the environment dict handed to workers."""
    tree = make_tree()
    activate(tree)
    warm()
    return {"tree": tree, "scratch": core.scratch_root()}


def child_env(tree, hashseed=None, extra=None):
    """Environment for a simulated OS process."""
    env = {
        "PATH": os.environ.get("PATH", "/usr/bin:/bin"),
        "HOME": os.environ.get("HOME", "/root"),
        "LANG": "C.UTF-8",
        "PYTHONPATH": tree,
        "PYTHONPYCACHEPREFIX": os.path.join(core.scratch_root(), "pycache"),
        "PYTHONHASHSEED": str(hashseed if hashseed is not None else 0),
        "PYTHONIOENCODING": "utf-8",
    }
    if extra:
        env.update(extra)
    return env
