"""The 'history language' of C15: a small harness-owned AST (plain JSON lists),
its printer to NSL source, and the reference state machine - an interpreter
with C-like semantics written from the language description, not from nsl's
VM.  The family is deliberately narrow (DESIGN.md section 3/C15) so that C15
does not re-test the pure properties C01/C03/C08 through the back door.

Types:  ["int"] ["float"] ["arr", "int"|"float", n] ["arr2"] (= int[2][3])
        ["struct"] (= P {int x; float y;})  ["vec", "int"|"float", n]
        ["sq", n] (= int[n][n], locals)  ["structq"] (= Q {P p; int[2] a; int z;})
        ["mat"] (= float4x4, globals)
Exprs:  ["lit", v] ["var", name] ["idx", name, e] ["idx2", name, e1, e2]
        ["fld", name, field] ["fld2", name, f1, f2] ["fldidx", name, field, e]
        ["bin", op, a, b] ["call", fname, [e...]]
        vector-valued: ["var", v] ["vcons", base, n, [e...]] ["vbin", "+"|"-", va, vb] ["vscale", va, e]
Stmts:  ["decl", type, name, init|None] ["assign", lvalue, "="|"+="|"-="|"*=", e]
        ["swz", name, comp, e] ["incdec", "++"|"--", name, postfix?]
        ["if", cond, then, else|None] ["for", var, bound, body]
        ["while", cond, body] ["do", cond, body] ["break"] ["continue"]
        ["return", e|None] ["expr", e]
"""
import copy
import json

STRUCT_FIELDS = [["x", "int"], ["y", "float"]]


def type_src(t):
    k = t[0]
    if k in ("int", "float"):
        return k
    if k == "arr":
        return f"{t[1]}[{t[2]}]"
    if k == "arr2":
        return "int[2][3]"
    if k == "struct":
        return "P"
    if k == "vec":
        return f"{t[1]}{t[2]}"
    if k == "sq":
        return f"int[{t[1]}][{t[1]}]"
    if k == "structq":
        return "Q"
    if k == "mat":
        return "float4x4"
    raise ValueError(t)


def zero(t):
    k = t[0]
    if k in ("int", "float"):
        return 0
    if k == "arr":
        return [0] * t[2]
    if k == "arr2":
        return [[0] * 3 for _ in range(2)]
    if k == "struct":
        return {"x": 0, "y": 0}
    if k == "vec":
        return [0] * t[2]
    if k == "sq":
        return [[0] * t[1] for _ in range(t[1])]
    if k == "structq":
        return {"p": {"x": 0, "y": 0}, "a": [0, 0], "z": 0}
    if k == "mat":
        return [[0] * 4 for _ in range(4)]
    raise ValueError(t)


def rand_value(rng, t):
    k = t[0]

    def ri():
        return rng.randint(-20, 20)

    def rf():
        return rng.randint(-32, 32) * 0.25

    if k == "int":
        return ri()
    if k == "float":
        return rf()
    if k == "arr":
        return [ri() if t[1] == "int" else rf() for _ in range(t[2])]
    if k == "arr2":
        return [[ri() for _ in range(3)] for _ in range(2)]
    if k == "struct":
        return {"x": ri(), "y": rf()}
    if k == "vec":
        return [ri() if t[1] == "int" else rf() for _ in range(t[2])]
    if k == "structq":
        return {"p": {"x": ri(), "y": rf()}, "a": [ri(), ri()], "z": ri()}
    if k == "mat":
        return [[rf() for _ in range(4)] for _ in range(4)]
    raise ValueError(t)


# ------------------------------------------------------------------ printer


def esrc(e):
    k = e[0]
    if k == "lit":
        v = e[1]
        return repr(float(v)) if isinstance(v, float) else str(v)
    if k == "var":
        return e[1]
    if k == "idx":
        return f"{e[1]}[{esrc(e[2])}]"
    if k == "idx2":
        return f"{e[1]}[{esrc(e[2])}][{esrc(e[3])}]"
    if k == "fld":
        return f"{e[1]}.{e[2]}"
    if k == "fld2":
        return f"{e[1]}.{e[2]}.{e[3]}"
    if k == "fldidx":
        return f"{e[1]}.{e[2]}[{esrc(e[3])}]"
    if k == "bin":
        return f"({esrc(e[2])} {e[1]} {esrc(e[3])})"
    if k == "call":
        return f"{e[1]}(" + ", ".join(esrc(a) for a in e[2]) + ")"
    if k == "vcons":
        return f"{e[1]}{e[2]}(" + ", ".join(esrc(a) for a in e[3]) + ")"
    if k == "vbin":
        return f"({esrc(e[2])} {e[1]} {esrc(e[3])})"
    if k == "vscale":
        return f"({esrc(e[1])} * {esrc(e[2])})"
    raise ValueError(e)


def ssrc(s, ind=1):
    p = "  " * ind
    k = s[0]
    if k == "decl":
        return p + f"{type_src(s[1])} {s[2]}" + (f" = {esrc(s[3])}" if s[3] is not None else "") + ";\n"
    if k == "assign":
        return p + f"{esrc(s[1])} {s[2]} {esrc(s[3])};\n"
    if k == "swz":
        return p + f"{s[1]}.{s[2]} = {esrc(s[3])};\n"
    if k == "incdec":
        return p + (f"{s[2]}{s[1]};\n" if s[3] else f"{s[1]}{s[2]};\n")
    if k == "expr":
        return p + esrc(s[1]) + ";\n"
    if k == "if":
        r = p + f"if ({esrc(s[1])}) {{\n" + "".join(ssrc(x, ind + 1) for x in s[2]) + p + "}"
        if s[3] is not None:
            r += " else {\n" + "".join(ssrc(x, ind + 1) for x in s[3]) + p + "}"
        return r + "\n"
    if k == "for":
        return (
            p
            + f"for (int {s[1]} = 0; {s[1]} < {s[2]}; ++{s[1]}) {{\n"
            + "".join(ssrc(x, ind + 1) for x in s[3])
            + p
            + "}\n"
        )
    if k == "while":
        return p + f"while ({esrc(s[1])}) {{\n" + "".join(ssrc(x, ind + 1) for x in s[2]) + p + "}\n"
    if k == "do":
        return p + "do {\n" + "".join(ssrc(x, ind + 1) for x in s[2]) + p + f"}} while ({esrc(s[1])})\n"
    if k == "break":
        return p + "break;\n"
    if k == "continue":
        return p + "continue;\n"
    if k == "return":
        return p + ("return;\n" if s[1] is None else f"return {esrc(s[1])};\n")
    raise ValueError(s)


def function_src(f):
    params = ", ".join(f"{t} {n}" for n, t in f["params"])
    head = "export function" if f.get("export", True) else "function"
    return f"{head} {f['name']}({params}) -> {f['ret']} {{\n" + "".join(ssrc(s) for s in f["body"]) + "}\n"


def program_src(prog):
    out = ["struct P { int x; float y; }\n"]
    if '"structq"' in json.dumps([prog["functions"], prog["globals"]]):
        out.append("struct Q { P p; int[2] a; int z; }\n")
    for name, t in prog["globals"]:
        out.append(_global_src(prog, name, t))
    for f in prog["functions"]:
        out.append(function_src(f))
    return "".join(out)


def _global_src(prog, name, t):
    """A global declaration; scalar globals may carry a literal initialiser (the host sets every
    global before it invokes anything, so whether the implementation honours it makes no difference
    to the history - unless it is applied again later)."""
    init = (prog.get("ginit") or {}).get(name)
    return f"{type_src(t)} {name}" + (f" = {init!r}" if init is not None else "") + ";\n"


def two_module_src(prog):
    """The same program as two modules: `glib` declares the globals, the main module imports it
    and holds the functions (struct types are module-local, so both define them).  In this form
    a local may carry the name of a global of the library (it shadows it)."""
    structs = "struct P { int x; float y; }\n"
    if '"structq"' in json.dumps([prog["functions"], prog["globals"]]):
        structs += "struct Q { P p; int[2] a; int z; }\n"
    lib = structs + "".join(_global_src(prog, name, t) for name, t in prog["globals"])
    lib += "export function glib_id(int a) -> int {\n  return a;\n}\n"
    main = 'import "glib";\n' + structs + "".join(function_src(f) for f in prog["functions"])
    return lib, main


# ------------------------------------------------------------------ reference state machine


class Fault(Exception):
    """A defined run-time failure (division by zero, index out of range)."""


class StepLimit(Exception):
    pass


class _Break(Exception):
    pass


class _Continue(Exception):
    pass


class _Return(Exception):
    def __init__(self, v):
        self.v = v


class Model:
    """One model VM: a globals map; fresh locals per activation and a fresh
    zero value per executed declaration."""

    def __init__(self, prog, step_limit=200000):
        self.prog = prog
        self.funcs = {f["name"]: f for f in prog["functions"]}
        self.g = {}
        self.steps = 0
        self.step_limit = step_limit
        self.snapshots = None
        self.stores = 0

    def snap(self):
        self.stores += 1
        if self.snapshots is not None:
            self.snapshots.append(copy.deepcopy(self.g))

    def tick(self):
        self.steps += 1
        if self.steps > self.step_limit:
            raise StepLimit()

    def ev(self, e, L):
        self.tick()
        k = e[0]
        if k == "lit":
            return e[1]
        if k == "var":
            return L[e[1]] if e[1] in L else self.g[e[1]]
        if k == "idx":
            a = L[e[1]] if e[1] in L else self.g[e[1]]
            i = self.ev(e[2], L)
            if not (0 <= i < len(a)):
                raise Fault("index")
            return a[i]
        if k == "idx2":
            a = L[e[1]] if e[1] in L else self.g[e[1]]
            i = self.ev(e[2], L)
            j = self.ev(e[3], L)
            if not (0 <= i < len(a)) or not (0 <= j < len(a[i])):
                raise Fault("index")
            return a[i][j]
        if k == "fld":
            return (L[e[1]] if e[1] in L else self.g[e[1]])[e[2]]
        if k == "fld2":
            return (L[e[1]] if e[1] in L else self.g[e[1]])[e[2]][e[3]]
        if k == "fldidx":
            a = (L[e[1]] if e[1] in L else self.g[e[1]])[e[2]]
            i = self.ev(e[3], L)
            if not (0 <= i < len(a)):
                raise Fault("index")
            return a[i]
        if k == "call":
            args = [self.ev(a, L) for a in e[2]]
            return self.call(e[1], args)
        if k == "vcons":
            return [self.ev(a, L) for a in e[3]]
        if k == "vbin":
            a = self.ev(e[2], L)
            b = self.ev(e[3], L)
            return [x + y if e[1] == "+" else x - y for x, y in zip(a, b)]
        if k == "vscale":
            a = self.ev(e[1], L)
            f = self.ev(e[2], L)
            return [x * f for x in a]
        if k == "bin":
            a = self.ev(e[2], L)
            b = self.ev(e[3], L)
            o = e[1]
            if o == "+":
                return a + b
            if o == "-":
                return a - b
            if o == "*":
                return a * b
            if o == "/":
                if b == 0:
                    raise Fault("div0")
                return a / b
            if o == "<":
                return 1 if a < b else 0
            if o == "<=":
                return 1 if a <= b else 0
            if o == ">":
                return 1 if a > b else 0
            if o == ">=":
                return 1 if a >= b else 0
            if o == "==":
                return 1 if a == b else 0
            if o == "!=":
                return 1 if a != b else 0
            if o == "&&":
                return 1 if (a and b) else 0
            if o == "||":
                return 1 if (a or b) else 0
        raise ValueError(e)

    def store(self, lv, v, L):
        k = lv[0]
        if isinstance(v, list):
            v = list(v)  # vectors are values: assignment copies
        if k == "var":
            if lv[1] in L:
                L[lv[1]] = v
            else:
                self.g[lv[1]] = v
                self.snap()
        elif k == "idx":
            isl = lv[1] in L
            a = L[lv[1]] if isl else self.g[lv[1]]
            i = self.ev(lv[2], L)
            if not (0 <= i < len(a)):
                raise Fault("index")
            a[i] = v
            if not isl:
                self.snap()
        elif k == "idx2":
            isl = lv[1] in L
            a = L[lv[1]] if isl else self.g[lv[1]]
            i = self.ev(lv[2], L)
            j = self.ev(lv[3], L)
            if not (0 <= i < len(a)) or not (0 <= j < len(a[i])):
                raise Fault("index")
            a[i][j] = v
            if not isl:
                self.snap()
        elif k == "fld2":
            isl = lv[1] in L
            (L[lv[1]] if isl else self.g[lv[1]])[lv[2]][lv[3]] = v
            if not isl:
                self.snap()
        elif k == "fldidx":
            isl = lv[1] in L
            a = (L[lv[1]] if isl else self.g[lv[1]])[lv[2]]
            i = self.ev(lv[3], L)
            if not (0 <= i < len(a)):
                raise Fault("index")
            a[i] = v
            if not isl:
                self.snap()
        elif k == "fld":
            isl = lv[1] in L
            (L[lv[1]] if isl else self.g[lv[1]])[lv[2]] = v
            if not isl:
                self.snap()
        else:
            raise ValueError(lv)

    def run(self, body, L):
        for s in body:
            self.tick()
            k = s[0]
            if k == "decl":
                L[s[2]] = zero(s[1])
                if s[3] is not None:
                    v = self.ev(s[3], L)
                    L[s[2]] = list(v) if isinstance(v, list) else v
            elif k == "assign":
                if s[2] == "=":
                    v = self.ev(s[3], L)
                else:
                    cur = self.ev(s[1], L)
                    rhs = self.ev(s[3], L)
                    v = {"+=": cur + rhs, "-=": cur - rhs, "*=": cur * rhs}[s[2]]
                self.store(s[1], v, L)
            elif k == "swz":
                v = self.ev(s[3], L)
                idx = "xyzw".index(s[2])
                if s[1] in L:
                    vec = list(L[s[1]])
                    vec[idx] = v
                    L[s[1]] = vec
                else:
                    vec = list(self.g[s[1]])
                    vec[idx] = v
                    self.g[s[1]] = vec
                    self.snap()
            elif k == "incdec":
                cur = self.ev(["var", s[2]], L)
                self.store(["var", s[2]], cur + (1 if s[1] == "++" else -1), L)
            elif k == "expr":
                self.ev(s[1], L)
            elif k == "if":
                if self.ev(s[1], L):
                    self.run(s[2], L)
                elif s[3] is not None:
                    self.run(s[3], L)
            elif k == "for":
                L[s[1]] = 0
                while L[s[1]] < s[2]:
                    self.tick()
                    try:
                        self.run(s[3], L)
                    except _Break:
                        break
                    except _Continue:
                        pass
                    L[s[1]] += 1
            elif k == "while":
                while self.ev(s[1], L):
                    try:
                        self.run(s[2], L)
                    except _Break:
                        break
                    except _Continue:
                        pass
            elif k == "do":
                while True:
                    self.tick()
                    try:
                        self.run(s[2], L)
                    except _Break:
                        break
                    except _Continue:
                        pass
                    if not self.ev(s[1], L):
                        break
            elif k == "break":
                raise _Break()
            elif k == "continue":
                raise _Continue()
            elif k == "return":
                raise _Return(None if s[1] is None else self.ev(s[1], L))
            else:
                raise ValueError(s)

    def call(self, fname, argvals):
        f = self.funcs[fname]
        L = {n: v for (n, _t), v in zip(f["params"], argvals)}
        try:
            self.run(f["body"], L)
            return None
        except _Return as r:
            return r.v

    def invoke(self, fname, args):
        """Host invocation with a name->value argument map.  Records the
        globals snapshot at start and after every global store (used to judge
        the post-state of an invocation that ends in a defined failure)."""
        f = self.funcs[fname]
        self.snapshots = [copy.deepcopy(self.g)]
        self.steps = 0
        return self.call(fname, [args[n] for n, _t in f["params"]])


def too_big(x):
    if isinstance(x, dict):
        return any(too_big(v) for v in x.values())
    if isinstance(x, list):
        return any(too_big(v) for v in x)
    if isinstance(x, bool):
        return False
    if isinstance(x, int):
        return abs(x) >= 2 ** 31
    if isinstance(x, float):
        return abs(x) >= 2 ** 20
    return False


def eq(a, b):
    """Numeric equality; sequences element-wise; structs by field."""
    if isinstance(a, dict) or isinstance(b, dict):
        return (
            isinstance(a, dict)
            and isinstance(b, dict)
            and a.keys() == b.keys()
            and all(eq(a[k], b[k]) for k in a)
        )
    if isinstance(a, (list, tuple)) or isinstance(b, (list, tuple)):
        return (
            isinstance(a, (list, tuple))
            and isinstance(b, (list, tuple))
            and len(a) == len(b)
            and all(eq(x, y) for x, y in zip(a, b))
        )
    if a is None or b is None:
        return a is b
    if isinstance(a, (int, float)) and isinstance(b, (int, float)):
        return a == b
    if isinstance(a, str) and isinstance(b, str):
        return a == b  # jsonable() placeholders of non-numeric values
    return False


def jsonable(v):
    """VM values -> JSON-able (for event logs)."""
    if isinstance(v, dict):
        return {str(k): jsonable(x) for k, x in v.items()}
    if isinstance(v, (list, tuple)):
        return [jsonable(x) for x in v]
    if v is None or isinstance(v, (int, float, str, bool)):
        return v
    return "<" + type(v).__name__ + ">"
