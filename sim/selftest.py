"""./check selftest [--props C15,C16] [--only determinism|sensitivity]

determinism  - the same seeds executed in different worker processes, with a
               different chunking / worker count and under another hash seed
               of the harness interpreter must give pairwise identical event-log
               digests and verdicts.
sensitivity  - hand-written mutants of the code under test, applied to a
               scratch copy of /repo's working tree (never to /repo), must be
               caught within the quick budget with a replay that reproduces;
               equivalent mutants must stay quiet.
"""
import json
import os
import shutil
import subprocess
import sys
import tempfile
import time

from . import core

N_DET = {"C15": 240, "C16": 240, "C17": 48, "C18": 24}


def _check(prop, extra_args, env_extra, timeout=3600):
    env = dict(os.environ)
    env.update(env_extra)
    p = subprocess.run(
        [os.path.join(core.VERIF, "check"), prop] + extra_args,
        cwd=core.VERIF,
        env=env,
        capture_output=True,
        text=True,
        timeout=timeout,
    )
    return p.returncode, p.stdout + p.stderr


def determinism(props):
    ok = True
    for prop in props:
        n = N_DET[prop]
        dumps = []
        for k, (workers, hs, chunk) in enumerate([(16, "0", None), (3, "12345", 7)]):
            with tempfile.NamedTemporaryFile(prefix="nslsim-det-", suffix=".json", delete=False) as f:
                path = f.name
            env = {"NSLSIM_HARNESS_HASHSEED": hs, "NSLSIM_DUMP_DIGESTS": path, "NSLSIM_REPLAY_DIR": tempfile.gettempdir()}
            if chunk:
                env["NSLSIM_CHUNK"] = str(chunk)
            code, out = _check(prop, ["--runs", str(n), "--no-evidence", "--workers", str(workers), "--keep-going"], env)
            try:
                with open(path) as f:
                    dumps.append(json.load(f))
            finally:
                os.unlink(path)
            if code not in (0,):
                print(f"determinism {prop}: configuration {k} exited {code}\n{out[-800:]}")
                ok = False
        if len(dumps) == 2:
            a, b = dumps
            diff = [i for i in sorted(a) if a[i] != b.get(i)]
            missing = set(a) ^ set(b)
            print(
                f"determinism {prop}: {len(a)} seeds x 2 configurations (16 workers/hashseed 0 vs 3 workers/"
                f"hashseed 12345/other chunking): {len(diff)} differing digests, {len(missing)} missing"
            )
            if diff or missing:
                ok = False
                for i in diff[:5]:
                    print("   run", i, a[i], b.get(i))
    return ok


def load_mutants():
    with open(os.path.join(core.VERIF, "sim", "mutants.json")) as f:
        return json.load(f)


def make_mutant_tree(mut, dest):
    from . import repo

    repo._copy_tree(core.REPO, dest, with_table=False)
    for ed in mut["edits"]:
        p = os.path.join(dest, ed["file"])
        with open(p, encoding="utf-8-sig") as f:
            s = f.read()
        if ed["old"] not in s:
            return False
        s = s.replace(ed["old"], ed["new"], 1)
        with open(p, "w", encoding="utf-8") as f:
            f.write(s)
    return True


def sensitivity(props, only=None):
    muts = load_mutants()
    ok = True
    root = tempfile.mkdtemp(prefix="nslsim-mut-", dir="/dev/shm" if os.path.isdir("/dev/shm") else None)
    try:
        for mut in muts:
            if mut["property"] not in props:
                continue
            if only and mut["id"] not in only:
                continue
            dest = os.path.join(root, "m")
            if not make_mutant_tree(mut, dest):
                print(f"sensitivity {mut['id']}: SKIPPED (anchor text not found in the working tree)")
                continue
            rdir = os.path.join(root, "replays")
            os.makedirs(rdir, exist_ok=True)
            t0 = time.time()
            args = ["--no-evidence"] + (["--runs", str(mut["runs"])] if mut.get("runs") else [])
            code, out = _check(mut["property"], args, {"NSLSIM_REPO": dest, "NSLSIM_REPLAY_DIR": rdir})
            expect = 0 if mut.get("equivalent") else 1
            line = [l for l in out.splitlines() if l.startswith("VIOLATION")]
            detail = [l for l in out.splitlines() if l.strip().startswith("oracle=")]
            runs = [l for l in out.splitlines() if " runs (" in l]
            status = "ok" if code == expect else "UNEXPECTED"
            replay_ok = ""
            if code == 1 and line:
                path = line[0].split("replay=")[1].strip()
                c2, o2 = _check(mut["property"], ["--replay", path], {"NSLSIM_REPO": dest})
                same = "matches the recorded one" in o2
                replay_ok = f" replay->exit {c2}{' (same digest)' if same else ' (DIGEST DIFFERS)'}"
                if c2 != 1 or not (same or mut.get("digest_may_differ")):
                    status = "REPLAY-FAILED"
                # and on the unchanged tree the replay must be quiet
                c3, o3 = _check(mut["property"], ["--replay", path], {})
                replay_ok += f", on unchanged tree->exit {c3}"
                if c3 != 0:
                    status = "REPLAY-ALARMS-ON-UNCHANGED-TREE"
            if status != "ok":
                ok = False
            print(
                f"sensitivity {mut['id']:34s} expect exit {expect} got {code} [{status}] {time.time()-t0:5.1f}s "
                f"{(detail[0].strip()[:110] if detail else '')}{replay_ok} {(runs[0].split(':')[1].split('(')[0].strip() if runs else '')}"
            )
            if status != "ok":
                print(out[-1200:])
    finally:
        shutil.rmtree(root, ignore_errors=True)
    return ok


def main(args):
    props = ["C15", "C16", "C17", "C18"]
    sel = os.environ.get("NSLSIM_SELFTEST_PROPS")
    if sel:
        props = sel.split(",")
    from . import driver

    props = [p for p in props if p in driver.MODULES and os.path.exists(os.path.join(core.VERIF, "sim", p.lower() + ".py"))]
    only = os.environ.get("NSLSIM_SELFTEST_ONLY", "")
    mut_only = [m for m in os.environ.get("NSLSIM_SELFTEST_MUTANTS", "").split(",") if m]
    ok = True
    if only in ("", "determinism"):
        ok &= determinism(props)
    if only in ("", "sensitivity"):
        ok &= sensitivity(props, mut_only)
    print("selftest:", "PASS" if ok else "FAIL")
    return 0 if ok else 1
