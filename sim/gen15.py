"""Seeded generator of C15 scenarios: a program of the history language plus a
history of host operations on 1-4 VMs.  Generation never touches the system
under test; it runs the reference model to keep values in range and to place
defined failures (division by zero, index out of range) on purpose.
"""
import copy

from . import core
from .lang import Model, Fault, StepLimit, rand_value, too_big

CMP = ["<", "<=", ">", ">=", "==", "!="]
FLOAT_LITS = [0.25, 0.5, 0.75, 1.25, 1.5, 2.5, 3.75]


class ProgGen:
    def __init__(self, rng, swarm):
        self.rng = rng
        self.sw = swarm

    def program(self):
        r = self.rng
        pool = [
            ["gi", ["int"]],
            ["gj", ["int"]],
            ["gf", ["float"]],
            ["ga", ["arr", "int", r.randint(2, 5)]],
            ["gb", ["arr", "float", r.randint(2, 4)]],
            ["gs", ["struct"]],
            ["gv", ["vec", "int", 3]],
            ["gw", ["vec", "float", 4]],
            ["gm", ["arr2"]],
            ["gx", ["mat"]],
            ["gq", ["structq"]],
        ]
        p = self.sw["global_density"]
        globs = [g for g in pool if r.random() < p] or [pool[0]]
        if not any(t[0] == "int" for _, t in globs):
            globs.insert(0, pool[0])
        self.globs = globs
        self.gmap = {n: t for n, t in globs}
        funcs = []
        self.helpers = []
        self.hwrites = {"d0": set()}  # helper -> globals it (transitively) writes
        self.hoisted = 0
        self.rec = None
        if self.sw["calls"]:
            for i in range(r.randint(1, 2)):
                c = r.random()
                if c < 0.35:
                    h = self.pure_helper(f"h{i}")
                elif c < 0.55 and self.helpers:
                    h = self.middle_helper(f"h{i}", self.helpers[-1])
                else:
                    h = self.function(f"h{i}", export=False)
                    if r.random() < 0.5:
                        # the helper assigns to its own parameter (parameters are locals of the
                        # activation: the caller's argument expression must not be affected)
                        pn = h["params"][0][0]
                        h["body"].insert(0, ["assign", ["var", pn], "=", ["bin", "+", ["var", pn], ["lit", r.randint(1, 5)]]])
                self.hwrites[h["name"]] = self._direct_writes(h["body"])
                funcs.append(h)
                self.helpers.append(h)
            arrs = [(n, t) for n, t in globs if t[0] == "arr" and t[1] == "int"]
            if self.sw.get("deep_rec") and arrs:
                # bounded recursion that reads a global array element at the bottom: a defined
                # failure (index out of range) can then strike deep inside nested activations
                an, at = arrs[0]
                self.rec = {"name": "d0", "array": an, "size": at[2]}
                funcs.append({
                    "name": "d0", "export": False, "params": [["n", "int"], ["k", "int"]], "ret": "int",
                    "body": [
                        ["if", ["bin", "<", ["var", "n"], ["lit", 1]], [["return", ["idx", an, ["var", "k"]]]], None],
                        ["return", ["bin", "+", ["call", "d0", [["bin", "-", ["var", "n"], ["lit", 1]], ["var", "k"]]],
                                    ["lit", 1]]],
                    ],
                    "fault": None, "ixsize": None,
                })
        for i in range(r.randint(1, 4)):
            funcs.append(self.function(f"f{i}", export=True))
        prog = {"globals": globs, "functions": funcs}
        if r.random() < 0.3:
            # literal initialisers on scalar globals (the history sets every global anyway)
            prog["ginit"] = {n: (r.randint(1, 9) if t[0] == "int" else r.choice([0.5, 1.5, 2.25]))
                             for n, t in globs if t[0] in ("int", "float") and r.random() < 0.7}
        if self.sw.get("two_module"):
            # the globals live in a library module; a scalar local of some functions takes the
            # name of a global that the function does not mention (it shadows the imported global)
            import re

            shadowed = 0
            for f in funcs:
                js = core.canon(f["body"])
                free = [n for n, _t in globs if f'"{n}"' not in js]
                locs = sorted(set(re.findall(r'\["decl",\["(?:int|float)"\],"(t\d+)"', js)))
                if free and locs and r.random() < 0.7:
                    import json as _json

                    f["body"] = _json.loads(js.replace(f'"{r.choice(locs)}"', f'"{r.choice(free)}"'))
                    shadowed += 1
            prog["shadowing"] = shadowed if shadowed else 0
            prog["two_module"] = True
        return prog

    # --- expressions; env: name -> type
    def int_atoms(self, env):
        out = []
        for n, t in env.items():
            if t[0] == "int":
                out.append(["var", n])
            elif t[0] == "struct":
                out.append(["fld", n, "x"])
            elif t[0] == "structq":
                out.append(["fld", n, "z"])
                out.append(["fld2", n, "p", "x"])
                out.append(["fldidx", n, "a", ["lit", self.rng.randrange(2)]])
            elif t[0] == "sq":
                out.append(["idx2", n, ["lit", self.rng.randrange(t[1])], ["lit", self.rng.randrange(t[1])]])
        return out

    def float_atoms(self, env):
        out = []
        for n, t in env.items():
            if t[0] == "float":
                out.append(["var", n])
            elif t[0] == "struct":
                out.append(["fld", n, "y"])
        return out

    # Evaluation order is the VM's business: an expression has at most ONE sub-expression that can
    # have an effect (a call) or can fail (a dynamic index); every other operand is generated "pure".
    # Likewise both operands of && and || beyond the first comparison's left side are pure, so that
    # an implementation that short-circuits them computes the same thing.
    _pure = 0

    # ... and where the one effectful operand is a call of a helper that *writes* globals, no other
    # part of the statement (sibling operands, the target of a compound assignment, index
    # expressions of the target) may read one of those globals - such a call is hoisted into a
    # local of its own in front of the statement (order_safe), so that left-to-right and
    # right-to-left evaluation of the statement compute the same thing.
    def _names(self, x, skip=None, out=None):
        """Globals mentioned anywhere in expression/lvalue x (not inside node `skip`)."""
        out = set() if out is None else out
        if x is skip or not isinstance(x, list):
            return out
        if x and isinstance(x[0], str):
            if x[0] in ("var", "fld", "fld2", "fldidx", "idx", "idx2") and x[1] in self.gmap:
                out.add(x[1])
            if x[0] == "call" and x is not skip:
                out.update(self.gmap)  # another call: assume it reads everything
        for y in x:
            self._names(y, skip, out)
        return out

    def _calls(self, x, out):
        if isinstance(x, list):
            if x and x[0] == "call":
                out.append(x)
            for y in x:
                self._calls(y, out)
        return out

    def _direct_writes(self, body):
        w = set()

        def walk(x):
            if not isinstance(x, list):
                return
            if x and isinstance(x[0], str):
                if x[0] == "assign" and x[1][1] in self.gmap:
                    w.add(x[1][1])
                elif x[0] == "incdec" and x[2] in self.gmap:
                    w.add(x[2])
                elif x[0] == "swz" and x[1] in self.gmap:
                    w.add(x[1])
                elif x[0] == "call":
                    w.update(self.hwrites.get(x[1], self.gmap))
            for y in x:
                walk(y)

        walk(body)
        return w

    def order_safe(self, body):
        out = []
        for s_ in body:
            k = s_[0]
            exprs, extra = [], set()
            if k == "assign":
                exprs = [s_[3]] + list(s_[1][2:])
                if s_[1][1] in self.gmap and (s_[2] != "=" or s_[1][0] != "var"):
                    extra.add(s_[1][1])
                extra |= self._names(s_[1][2:])
            elif k == "swz":
                exprs = [s_[3]]
                if s_[1] in self.gmap:
                    extra.add(s_[1])
            elif k == "decl" and s_[3] is not None:
                exprs = [s_[3]]
            elif k == "if":
                exprs = [s_[1]]
                s_[2] = self.order_safe(s_[2])
                if s_[3] is not None:
                    s_[3] = self.order_safe(s_[3])
            elif k == "return":
                exprs = [s_[1]]
            elif k == "for":
                s_[3] = self.order_safe(s_[3])
            elif k in ("while", "do"):
                s_[2] = self.order_safe(s_[2])
            calls = []
            for e in exprs:
                self._calls(e, calls)
            for c in calls:
                w = set(self.hwrites.get(c[1], self.gmap))
                if not w:
                    continue
                reads = set(extra)
                for e in exprs:
                    self._names(e, c, reads)
                if w & reads or len(calls) > 1:
                    self.hoisted += 1
                    nm = f"z{self.hoisted}"
                    out.append(["decl", ["int"], nm, list(c)])
                    c[:] = ["var", nm]
            out.append(s_)
        return out

    def pure(self, fn, *a):
        self._pure += 1
        try:
            return fn(*a)
        finally:
            self._pure -= 1

    def idx_expr(self, env, size):
        r = self.rng
        dyn = [n for n in self.idxvars if n in env]
        if dyn and not self._pure and r.random() < 0.5:
            self.ix_sizes.append(size)
            return ["var", r.choice(dyn)]
        return ["lit", r.randrange(size)]

    def int_expr(self, env, depth=0):
        r = self.rng
        atoms = self.int_atoms(env)
        c = r.random()
        if depth >= 2 or c < 0.35:
            if atoms and r.random() < 0.7:
                return r.choice(atoms)
            return ["lit", r.randint(0, 9)]
        if c < 0.5:
            arrs = [(n, t) for n, t in env.items() if (t[0] in ("arr", "vec") and t[1] == "int")]
            if arrs:
                n, t = r.choice(arrs)
                return ["idx", n, self.idx_expr(env, t[2])]
            if "gm" in env:
                return ["idx2", "gm", ["lit", r.randrange(2)], self.idx_expr(env, 3)]
        if c < 0.58 and self.allow_calls and self.helpers and not self._pure:
            h = r.choice(self.helpers)
            self.made_call = True
            if r.random() < 0.4:
                return ["call", h["name"], [["lit", r.randint(0, 5)] for _ in h["params"]]]  # literal-only call site
            return ["call", h["name"], [self.pure(self.int_expr, env, 2) for _ in h["params"]]]
        op = r.choice(["+", "-", "*", "+", "-"])
        b = self.pure(self.int_expr, env, depth + 1)
        if op == "*":
            b = ["lit", r.choice([0, 1, 2, 3])]
        return ["bin", op, self.int_expr(env, depth + 1), b]

    def float_expr(self, env, depth=0):
        r = self.rng
        atoms = self.float_atoms(env)
        c = r.random()
        if depth >= 2 or c < 0.4:
            if atoms and r.random() < 0.7:
                return r.choice(atoms)
            return ["lit", r.choice(FLOAT_LITS)]
        if c < 0.5:
            arrs = [(n, t) for n, t in env.items() if (t[0] in ("arr", "vec") and t[1] == "float")]
            if arrs:
                n, t = r.choice(arrs)
                return ["idx", n, self.idx_expr(env, t[2])]
        if c < 0.56 and "gx" in env:
            return ["idx2", "gx", ["lit", r.randrange(4)], self.idx_expr(env, 4)]
        op = r.choice(["+", "-", "*"])
        b = self.pure(self.float_expr, env, depth + 1)
        if op == "*":
            b = ["lit", r.choice([0.5, 1.5, 2.5, 0.25])]
        return ["bin", op, self.float_expr(env, depth + 1), b]

    def cond(self, env):
        r = self.rng
        c = ["bin", r.choice(CMP), self.int_expr(env, 1), self.pure(self.int_expr, env, 1)]
        if r.random() < 0.25:
            c = [
                "bin",
                r.choice(["&&", "||"]),
                c,
                ["bin", r.choice(CMP), self.pure(self.int_expr, env, 1), ["lit", r.randint(0, 9)]],
            ]
        return c

    def lvalue(self, env):
        """(lvalue, element type) of a scalar slot, biased towards globals."""
        r = self.rng
        cands = []
        for n, t in env.items():
            if n in self.readonly:
                continue
            if t[0] in ("int", "float"):
                cands.append((["var", n], t[0]))
            elif t[0] in ("arr", "vec"):
                cands.append((["idx", n, self.idx_expr(env, t[2])], t[1]))
            elif t[0] == "arr2":
                cands.append((["idx2", n, ["lit", r.randrange(2)], self.idx_expr(env, 3)], "int"))
            elif t[0] == "struct":
                cands.append((["fld", n, "x"], "int"))
                cands.append((["fld", n, "y"], "float"))
            elif t[0] == "structq":
                cands.append((["fld", n, "z"], "int"))
                cands.append((["fld2", n, "p", "x"], "int"))
                cands.append((["fld2", n, "p", "y"], "float"))
                cands.append((["fldidx", n, "a", self.idx_expr(env, 2)], "int"))
            elif t[0] == "sq":
                cands.append((["idx2", n, ["lit", r.randrange(t[1])], self.idx_expr(env, t[1])], "int"))
            elif t[0] == "mat":
                cands.append((["idx2", n, ["lit", r.randrange(4)], self.idx_expr(env, 4)], "float"))
        if self.sw.get("aggregate_stores_only"):
            # no stores to global *scalars* in this run: globals change only through element /
            # field stores (state that is invalidated by whole-variable stores only stays stale)
            keep = [c for c in cands if not (c[0][0] == "var" and c[0][1] in self.gmap)]
            cands = keep or cands
        gl = [c for c in cands if c[0][1] in self.gmap]
        return r.choice(gl if gl and r.random() < 0.7 else cands)

    def stmts(self, env, depth, in_loop, loopkind=None, n=None):
        r = self.rng
        out = []
        for _ in range(n or r.randint(1, 4)):
            c = r.random()
            if c < 0.45:
                lv, et = self.lvalue(env)
                gen_e = self.int_expr if et == "int" else self.float_expr
                e = self.pure(gen_e, env) if '"var"' in core.canon(lv[2:]) else gen_e(env)
                opk = r.choice(["=", "=", "=", "+=", "-=", "*="])
                if opk == "*=":
                    e = ["lit", r.choice([0, 1, 2]) if et == "int" else r.choice([0.5, 2.5, 1.5])]
                out.append(["assign", lv, opk, e])
            elif c < 0.52:
                vs = [n_ for n_, t in env.items() if t[0] == "int" and n_ not in self.readonly
                      and not (self.sw.get("aggregate_stores_only") and n_ in self.gmap)]
                if vs:
                    out.append(["incdec", r.choice(["++", "--"]), r.choice(vs), r.random() < 0.5])
            elif c < 0.58:
                # single-component swizzle writes: on global vectors, on local copies of them and on
                # vector parameters (a write through one holder must not show through another)
                vecs = [(n_, t) for n_, t in env.items() if t[0] == "vec" and n_ not in self.readonly]
                if vecs:
                    n_, t = r.choice(vecs)
                    out.append(
                        [
                            "swz",
                            n_,
                            "xyzw"[r.randrange(t[2])],
                            self.int_expr(env) if t[1] == "int" else self.float_expr(env),
                        ]
                    )
            elif c < 0.62 and any(t[0] == "vec" for t in env.values()):
                # vectors as whole values: local copies, constructors, arithmetic, write-back
                vecs = [(n_, t) for n_, t in env.items() if t[0] == "vec"]
                n_, t = r.choice(vecs)
                same = [m_ for m_, u in vecs if u == t]
                # several components in one constructor: all of them pure (their order is not fixed)
                scal = ((lambda: self.pure(self.int_expr, env, 1)) if t[1] == "int"
                        else (lambda: self.pure(self.float_expr, env, 1)))
                k = r.random()
                if k < 0.35:
                    self.lc += 1
                    nm = f"w{self.lc}"
                    init = ["var", n_] if r.random() < 0.5 else ["vcons", t[1], t[2], [scal() for _ in range(t[2])]]
                    out.append(["decl", t, nm, init])
                    env[nm] = t
                elif k < 0.6:
                    out.append(["assign", ["var", n_], "=", ["var", r.choice(same)]])
                elif k < 0.8:
                    out.append(["assign", ["var", n_], "=", ["vbin", r.choice(["+", "-"]), ["var", r.choice(same)],
                                                              ["var", r.choice(same)]]])
                elif k < 0.9:
                    out.append(["assign", ["var", n_], "=", ["vcons", t[1], t[2], [scal() for _ in range(t[2])]]])
                else:
                    f = ["lit", r.choice([0, 1, 2])] if t[1] == "int" else ["lit", r.choice([0.5, 1.5, 2.5])]
                    out.append(["assign", ["var", n_], "=", ["vscale", ["var", n_], f]])
            elif c < 0.68:
                self.lc += 1
                nm = f"t{self.lc}"
                ch = r.random()
                if ch < 0.5:
                    t = ["int"]
                    init = self.int_expr(env) if r.random() < 0.5 else None
                elif ch < 0.7:
                    t = ["float"]
                    init = self.float_expr(env) if r.random() < 0.5 else None
                elif ch < 0.82:
                    t = ["arr", "int", r.randint(2, 4)]
                    init = None
                elif ch < 0.9:
                    t = ["struct"]
                    init = None
                elif ch < 0.95:
                    t = ["sq", r.randint(2, 3)]
                    init = None
                else:
                    t = ["structq"]
                    init = None
                out.append(["decl", t, nm, init])
                env[nm] = t
            elif c < 0.8 and depth < 2:
                tb = self.stmts(dict(env), depth + 1, in_loop, loopkind)
                eb = self.stmts(dict(env), depth + 1, in_loop, loopkind) if r.random() < 0.4 else None
                out.append(["if", self.cond(env), tb, eb])
            elif c < 0.9 and depth < 2:
                self.lc += 1
                k = f"k{self.lc}"
                e2 = dict(env)
                e2[k] = ["int"]
                self.readonly.add(k)
                body = self.stmts(e2, depth + 1, True, "for")
                out.append(["for", k, r.randint(1, 5), body])
            elif c < 0.95 and depth < 2:
                # bounded while / do with a dedicated counter
                self.lc += 1
                cn = f"c{self.lc}"
                out.append(["decl", ["int"], cn, ["lit", 0]])
                env[cn] = ["int"]
                self.readonly.add(cn)
                kind = r.choice(["while", "do"])
                body = [["assign", ["var", cn], "=", ["bin", "+", ["var", cn], ["lit", 1]]]] + self.stmts(
                    dict(env), depth + 1, True, kind
                )
                out.append([kind, ["bin", "<", ["var", cn], ["lit", r.randint(1, 4)]], body])
            elif in_loop and r.random() < 0.6:
                kinds = ["break", "continue"] if loopkind != "do" else ["break"]
                out.append(["if", self.cond(env), [[r.choice(kinds)]], None])
            elif r.random() < 0.3 and self.ret != "void":
                out.append(
                    [
                        "if",
                        self.cond(env),
                        [["return", self.int_expr(env) if self.ret == "int" else self.float_expr(env)]],
                        None,
                    ]
                )
        return out

    def pure_helper(self, name):
        """A side-effect-free helper that only *reads* globals (scalars, array elements,
        struct fields) and its parameters."""
        r = self.rng
        self.lc = 0
        self.readonly = set()
        self.ix_sizes = []
        self.idxvars = []
        self.allow_calls = False
        self.made_call = False
        params = [[f"a{i}", "int"] for i in range(r.randint(1, 2))]
        env = {n: t for n, t in self.globs}
        for n, t in params:
            env[n] = [t]
        e = self.int_expr(env)
        for _ in range(r.randint(0, 2)):
            e = ["bin", "+", e, self.int_expr(env, 1)]
        return {"name": name, "export": False, "params": params, "ret": "int", "body": [["return", e]],
                "fault": None, "ixsize": None, "pure": True}

    def middle_helper(self, name, callee):
        """A helper that touches no global itself but calls one that may."""
        r = self.rng
        params = [[f"a{i}", "int"] for i in range(r.randint(1, 2))]
        args = [(["var", r.choice(params)[0]] if r.random() < 0.6 else ["lit", r.randint(0, 9)]) for _ in callee["params"]]
        return {"name": name, "export": False, "params": params, "ret": "int",
                "body": [["return", ["bin", "+", ["call", callee["name"], args], ["lit", r.randint(0, 5)]]]],
                "fault": None, "ixsize": None}

    def function(self, name, export):
        r = self.rng
        self.lc = 0
        self.readonly = set()
        self.ix_sizes = []
        self.made_call = False
        self.allow_calls = export and bool(self.helpers) and r.random() < 0.6
        if export:
            np_ = r.randint(0, 3)
            params = [[f"p{i}", r.choice(["int", "int", "float"])] for i in range(np_)]
            if r.random() < 0.25:
                # a vector-typed parameter: passed by value; the host may pass the very same
                # list object again in later invocations
                params.append(["pv", r.choice(["int3", "float4"])])
            self.ret = r.choice(["int", "int", "float", "void"])
        else:
            params = [[f"a{i}", "int"] for i in range(r.randint(1, 2))]
            self.ret = "int"
        env = {n: t for n, t in self.globs}
        prefix = []
        def ptype(t):
            return {"int3": ["vec", "int", 3], "float4": ["vec", "float", 4]}.get(t, [t])

        if self.allow_calls:
            # CALL re-binds the caller's argument list on the unchanged VM (a C03
            # matter); keep C15 clear of it: parameters are copied into locals
            # first and never read again.
            for n, t in params:
                prefix.append(["decl", ptype(t), "q" + n[1:], ["var", n]])
                env["q" + n[1:]] = ptype(t)
        else:
            for n, t in params:
                env[n] = ptype(t)
        self.idxvars = []
        if export and r.random() < 0.6:
            params.append(["ix", "int"])
            if self.allow_calls:
                prefix.append(["decl", ["int"], "jx", ["var", "ix"]])
                env["jx"] = ["int"]
                self.idxvars = ["jx"]
                self.readonly.add("jx")
            else:
                env["ix"] = ["int"]
                self.idxvars = ["ix"]
                self.readonly.add("ix")
        env0 = dict(env)
        body = self.stmts(env, 0, False, n=r.randint(2, 6))
        gints = [n for n, t in self.globs if t[0] == "int"]
        if self.sw.get("aggregate_stores_only"):
            gints = []
        if gints and r.random() < self.sw["carry_bias"]:
            # state-carrying locals: each feeds a global, so a local that is not
            # fresh in a later activation becomes visible in the history
            g = ["var", r.choice(gints)]
            self.lc += 1
            kind = r.random()
            if kind < 0.35:
                nm = f"a{self.lc}x"
                tpl = [
                    ["decl", ["int"], nm, None],
                    ["assign", ["var", nm], "=", ["bin", "+", ["var", nm], self.int_expr(env0, 1)]],
                    ["assign", g, "=", ["bin", "+", g, ["var", nm]]],
                ]
            elif kind < 0.7:
                nm = f"h{self.lc}x"
                n_ = r.randint(2, 4)
                c = ["lit", r.randrange(n_)]
                tpl = [
                    ["decl", ["arr", "int", n_], nm, None],
                    ["assign", ["idx", nm, c], "+=", ["lit", r.randint(1, 3)]],
                    ["assign", g, "=", ["bin", "+", g, ["idx", nm, c]]],
                ]
            elif kind < 0.85:
                nm = f"s{self.lc}x"
                tpl = [
                    ["decl", ["struct"], nm, None],
                    ["assign", ["fld", nm, "x"], "=", ["bin", "+", ["fld", nm, "x"], ["lit", r.randint(1, 3)]]],
                    ["assign", g, "=", ["bin", "+", g, ["fld", nm, "x"]]],
                ]
            elif kind < 0.93:
                # nested aggregate: square 2-D local, an inner row is written in place
                nm = f"m{self.lc}x"
                n_ = r.randint(2, 3)
                c1, c2 = ["lit", r.randrange(n_)], ["lit", r.randrange(n_)]
                slot = ["idx2", nm, c1, c2]
                # the same column of another row must be untouched by the store
                other = ["idx2", nm, ["lit", (c1[1] + 1) % n_], c2]
                tpl = [
                    ["decl", ["sq", n_], nm, None],
                    ["assign", slot, "=", ["bin", "+", slot, ["lit", r.randint(1, 3)]]],
                    ["assign", g, "=", ["bin", "+", ["bin", "+", g, slot], other]],
                ]
            else:
                # nested aggregate: struct holding a struct and an array
                nm = f"q{self.lc}x"
                c = ["lit", r.randrange(2)]
                tpl = [
                    ["decl", ["structq"], nm, None],
                    ["assign", ["fldidx", nm, "a", c], "=", ["bin", "+", ["fldidx", nm, "a", c], ["lit", r.randint(1, 3)]]],
                    ["assign", ["fld2", nm, "p", "x"], "=", ["bin", "+", ["fld2", nm, "p", "x"], ["lit", r.randint(1, 3)]]],
                    ["assign", g, "=", ["bin", "+", ["bin", "+", g, ["fldidx", nm, "a", c]],
                                        ["bin", "+", ["fld2", nm, "p", "x"], ["fld", nm, "z"]]]],
                ]
            pos = r.randint(0, len(body))
            body[pos:pos] = tpl
        if export and self.rec and self.allow_calls and self.idxvars and gints and r.random() < 0.7:
            g = ["var", r.choice(gints)]
            depth = r.choice([3, 15, 25, 30, 30])
            body.insert(r.randint(0, len(body)),
                        ["assign", g, "=", ["bin", "+", g, ["call", "d0", [["lit", depth], ["var", self.idxvars[0]]]]]])
            self.ix_sizes.append(self.rec["size"])
        fault = None
        if export and r.random() < self.sw["fault_sites"]:
            pos = r.randint(0, len(body))
            if r.random() < 0.5 and not self.allow_calls:
                params.append(["dv", "float"])
                gfl = [n for n, t in self.globs if t[0] == "float"]
                tgt = ["var", gfl[0]] if gfl else None
                if tgt is None:
                    body.insert(0, ["decl", ["float"], "tq", None])
                    tgt = ["var", "tq"]
                    pos += 1
                body.insert(pos, ["assign", tgt, "=", ["bin", "/", ["lit", 7.5], ["var", "dv"]]])
                fault = "div"
            elif self.ix_sizes:
                fault = "idx"
        body = prefix + body
        if self.ret != "void":
            body.append(["return", self.int_expr(env) if self.ret == "int" else self.float_expr(env)])
        body = self.order_safe(body)
        return {
            "name": name,
            "export": export,
            "params": params,
            "ret": self.ret,
            "body": body,
            "fault": fault,
            "ixsize": min(self.ix_sizes) if self.ix_sizes else None,
        }


def resolve_args(args, hostobjs):
    """Arguments as values: {"$ref": k} stands for the k-th host-owned vector object."""
    return {n: (hostobjs[a["$ref"]] if isinstance(a, dict) and "$ref" in a else a) for n, a in args.items()}


def draw_swarm(rng):
    return {
        "global_density": rng.choice([0.3, 0.6, 0.9]),
        "calls": rng.random() < 0.4,
        "carry_bias": rng.choice([0.0, 0.5, 0.9]),
        "fault_sites": rng.choice([0.0, 0.35, 0.7]),
        "fault_rate": rng.choice([0.0, 0.15, 0.4]),
        "max_vms": rng.choice([1, 2, 3, 3]),
        "ops": rng.choice([8, 20, 40, 80]),
        "p_set": rng.choice([0.05, 0.2]),
        "p_get": rng.choice([0.0, 0.1]),
        "p_lifecycle": rng.choice([0.0, 0.05, 0.12]),
        "second_program": rng.random() < 0.3,
        "deep_rec": rng.random() < 0.25,
        "two_module": rng.random() < 0.15,
        "p_invx": rng.choice([0.0, 0.0, 0.08, 0.2]),
        "aggregate_stores_only": rng.random() < 0.2,
        # always False: the optimisation passes have defects of their own on the
        # unchanged tree (`++gi; p0 = gi;` crashes with -O) which are C02's matter
        "optimize": False,
    }


def gen_scenario(seed, tier="quick"):
    rng = core.sub_rng(seed, "c15.sched")
    sw = draw_swarm(core.sub_rng(seed, "c15.swarm"))
    if tier == "thorough" and core.sub_rng(seed, "c15.tier").random() < 0.4:
        # deeper bounds in the thorough tier: longer histories on more VMs
        sw["ops"] = core.sub_rng(seed, "c15.tier2").choice([120, 200, 300])
        sw["max_vms"] = 4
    if sw["deep_rec"] and sw["calls"]:
        # many defined failures deep inside nested activations, on few VMs, in one long history
        sw.update(fault_sites=0.7, fault_rate=0.5, ops=80, max_vms=rng.choice([1, 1, 2]), p_lifecycle=0.0, p_set=0.05)
    prog = ProgGen(core.sub_rng(seed, "c15.prog"), sw).program()
    vrng = core.sub_rng(seed, "c15.values")
    exported = [f for f in prog["functions"] if f["export"]]
    models = {}
    ops = []
    next_vm = 0
    hostobjs = []  # vector objects owned by the host, passed (by identity) to several invocations
    hostref = {}

    def new_vm(progidx):
        nonlocal next_vm
        v = next_vm
        next_vm += 1
        ops.append(["new", v, progidx])
        models[v] = Model(prog, step_limit=20000)
        if ops and rng.random() < 0.35:
            # what a VM shows for a global nobody has set on *it* must not depend on
            # what happened on other VMs before
            for n, t in prog["globals"]:
                if rng.random() < 0.5:
                    ops.append(["get0", v, n])
        for n, t in prog["globals"]:
            val = rand_value(vrng, t)
            ops.append(["set", v, n, val])
            models[v].g[n] = copy.deepcopy(val)
        return v

    n0 = rng.randint(1, sw["max_vms"])
    for _ in range(n0):
        new_vm(1 if (sw["second_program"] and rng.random() < 0.3) else 0)
    budget = rng.randint(max(3, sw["ops"] // 4), sw["ops"])
    total_created = n0
    for _ in range(budget):
        live = sorted(models)
        c = rng.random()
        if c < sw["p_lifecycle"]:
            k = rng.random()
            if k < 0.45 and total_created < (8 if tier == "thorough" else 5) and len(live) < 4:
                new_vm(1 if (sw["second_program"] and rng.random() < 0.4) else 0)
                total_created += 1
            elif k < 0.7 and len(live) > 1:
                v = rng.choice(live)
                ops.append(["abandon", v])
                del models[v]
            else:
                v = rng.choice(live)
                vals = {}
                for n, t in prog["globals"]:
                    vals[n] = rand_value(vrng, t)
                    models[v].g[n] = copy.deepcopy(vals[n])
                ops.append(["reset", v, vals])
            continue
        v = rng.choice(live)
        if c < sw["p_lifecycle"] + sw["p_set"]:
            n, t = rng.choice(prog["globals"])
            val = rand_value(vrng, t)
            ops.append(["set", v, n, val])
            models[v].g[n] = copy.deepcopy(val)
        elif c < sw["p_lifecycle"] + sw["p_set"] + sw["p_get"]:
            ops.append(["get", v, rng.choice(prog["globals"])[0]])
        else:
            f = rng.choice(exported)
            deep = [x for x in exported if '"d0"' in core.canon(x["body"])]
            if deep and rng.random() < 0.6:
                f = rng.choice(deep)
            args = {}
            wantfault = bool(f["fault"]) and rng.random() < sw["fault_rate"]
            for n, t in f["params"]:
                if n == "ix":
                    sz = f["ixsize"] or 1
                    if wantfault and f["fault"] == "idx" and f["ixsize"]:
                        args[n] = sz + rng.randint(0, 2)
                    else:
                        args[n] = rng.randrange(sz)
                elif n == "dv":
                    args[n] = 0.0 if (wantfault and f["fault"] == "div") else rng.choice([0.5, 0.25, 2.5])
                elif t == "int":
                    args[n] = rng.randint(-9, 9)
                elif t in ("int3", "float4"):
                    k = (f["name"], n)
                    if k not in hostref or rng.random() < 0.3:
                        hostref[k] = len(hostobjs)
                        hostobjs.append([rng.randint(-9, 9) for _ in range(3)] if t == "int3"
                                        else [rng.randint(-16, 16) * 0.25 for _ in range(4)])
                    args[n] = {"$ref": hostref[k]}  # the same host object may be passed again later
                else:
                    args[n] = rng.randint(-16, 16) * 0.25
            margs = resolve_args(args, hostobjs)
            # domain guard: run the model on a copy first
            m = copy.deepcopy(models[v])
            try:
                m.invoke(f["name"], copy.deepcopy(margs))
            except Fault:
                pass
            except StepLimit:
                break
            if too_big(m.g):
                break
            if len(args) >= 1 and rng.random() < sw.get("p_invx", 0.0):
                # the host leaves one argument out (whatever the VM does with that, it must do the
                # same as a brand-new VM with the same globals); the generator cannot predict the
                # outcome, the executor adopts the observed state
                omitted = dict(args)
                omitted.pop(rng.choice(sorted(omitted)))
                ops.append(["invx", v, f["name"], omitted])
                continue
            ops.append(["inv", v, f["name"], args])
            try:
                models[v].invoke(f["name"], copy.deepcopy(margs))
            except Fault:
                # any snapshot is allowed; the generator continues from the
                # state with all executed stores applied (the executor adopts
                # whatever the VM really did)
                models[v].g = m.g
    sc = {"kind": "c15", "seed": seed, "prog": prog, "ops": ops, "optimize": sw["optimize"], "swarm": sw,
          "hostobjs": hostobjs, "two_module": bool(prog.get("two_module"))}
    if rng.random() < 0.04:
        # beyond-statement probe P1: a host exception raised inside an invocation at a given VM
        # line event (KeyboardInterrupt analogue).  Tallied, never judged; the run ends there.
        inv = [i for i, o in enumerate(ops) if o[0] == "inv"]
        if inv:
            sc["cancel"] = {str(rng.choice(inv[len(inv) // 2:])): rng.choice([1, 5, 20, 60, 200, 1000])}
    return sc
