"""nslsim core: seeds, canonical event logs, isolated (forked) execution,
seeded parallel search, delta-debugging shrinker, replay files, evidence.

Nothing in here reads a wall clock, a pid, id() or hash() to make a decision
that reaches a scenario, an event log or a verdict.  Wall clocks are used only
for budgets (how many runs get made) and for evidence timing fields.
"""
import hashlib
import json
import os
import random
import select
import shutil
import signal
import sys
import tempfile
import time
import traceback

VERIF = os.path.dirname(os.path.dirname(os.path.abspath(__file__)))
REPO = os.environ.get("NSLSIM_REPO", "/repo")
PYTHON = sys.executable

# ---------------------------------------------------------------- seeds


def derive(*parts) -> int:
    """64-bit integer derived from the given parts (SHA-256)."""
    h = hashlib.sha256("\x1f".join(str(p) for p in parts).encode()).digest()
    return int.from_bytes(h[:8], "big")


def sub_rng(seed: int, name: str) -> random.Random:
    """Independent PRNG for one component of one run."""
    return random.Random(derive("rng", seed, name))


def run_seed(prop: str, base: int, i: int) -> int:
    return derive("run", prop, base, i)


# ---------------------------------------------------------------- canonical data


def canon(obj) -> str:
    return json.dumps(obj, sort_keys=True, separators=(",", ":"), default=_default)


def _default(o):
    if isinstance(o, (set, frozenset)):
        return sorted(o)
    if isinstance(o, tuple):
        return list(o)
    if isinstance(o, bytes):
        return "b:" + o.hex()
    raise TypeError(type(o))


def digest(obj) -> str:
    return hashlib.sha256(canon(obj).encode()).hexdigest()[:16]


class EventLog:
    """Append-only list of canonical JSON lines; the digest of the whole log is
    what determinism self-tests compare."""

    def __init__(self):
        self.lines = []
        self._h = hashlib.sha256()

    def add(self, kind, **fields):
        fields["k"] = kind
        fields["n"] = len(self.lines)
        line = canon(fields)
        self.lines.append(line)
        self._h.update(line.encode())
        self._h.update(b"\n")

    def digest(self):
        return self._h.hexdigest()[:16]


# ---------------------------------------------------------------- scratch space

_SCRATCH = None


def scratch_root() -> str:
    """One scratch directory per check invocation, removed at exit."""
    global _SCRATCH
    if _SCRATCH is None:
        base = "/dev/shm" if os.path.isdir("/dev/shm") and os.access("/dev/shm", os.W_OK) else None
        _reap_stale_scratch(base or tempfile.gettempdir())
        _SCRATCH = tempfile.mkdtemp(prefix="nslsim-", dir=base)
        owner = os.getpid()
        with open(os.path.join(_SCRATCH, "owner.pid"), "w") as f:
            f.write(str(owner))
        import atexit

        def _cleanup():
            if os.getpid() == owner:
                shutil.rmtree(_SCRATCH, ignore_errors=True)

        atexit.register(_cleanup)
    return _SCRATCH


def _reap_stale_scratch(base):
    """Remove scratch directories whose owning check process no longer exists (a
    killed run cannot clean up after itself)."""
    try:
        names = [n for n in os.listdir(base) if n.startswith("nslsim-")]
    except OSError:
        return
    for n in names:
        d = os.path.join(base, n)
        try:
            with open(os.path.join(d, "owner.pid")) as f:
                pid = int(f.read().strip())
            os.kill(pid, 0)
        except ProcessLookupError:
            shutil.rmtree(d, ignore_errors=True)
        except (OSError, PermissionError, ValueError):
            continue  # no / empty / unreadable owner file: may be a run that is just starting


def cleanup_scratch():
    global _SCRATCH
    if _SCRATCH:
        shutil.rmtree(_SCRATCH, ignore_errors=True)
        _SCRATCH = None


# ---------------------------------------------------------------- isolated execution


class HarnessError(Exception):
    pass


def api_smoke():
    """Does the product still have the host API the harness drives (Compile, Linker(loader=),
    AddModule, Link, VirtualMachine, SetGlobal, GetGlobal, Invoke(name, **args))?  A call that the
    interpreter refuses *at the call itself* (TypeError / AttributeError raised in the harness's own
    frame) means the harness is out of date: HARNESS-ERROR, never a VIOLATION.  Anything that goes
    wrong *inside* the product is left to the checks."""
    from nsl import Compiler, LinearIR, VM

    def step(what, fn):
        try:
            with Quiet():
                return fn()
        except (TypeError, AttributeError) as e:
            tb = e.__traceback__
            depth = 0
            while tb is not None:
                depth += 1
                tb = tb.tb_next
            if depth <= 2:  # step() -> the lambda: the call itself was refused
                raise HarnessError(f"host API changed: {what} is refused ({type(e).__name__}: {e})")
            return None
        except (Exception, SystemExit):
            return None

    res = step("Compiler().Compile(source, options)", lambda: Compiler.Compiler().Compile(
        "int smokeg__;\nexport function smoke__(int a) -> int { smokeg__ = a; return a; }\n", {"optimize": False}))
    mod = step("CompileResult.IRModule", lambda: res.IRModule) if res is not None else None
    if mod is None:
        return
    ld = step("MemoryModuleLoader()", lambda: LinearIR.MemoryModuleLoader())
    step("FilesystemModuleLoader()", lambda: LinearIR.FilesystemModuleLoader())
    if ld is not None:
        step("MemoryModuleLoader.AddModule(name, module)", lambda: ld.AddModule("smoke__", mod))
    lk = step("Linker(loader=...)", lambda: LinearIR.Linker(loader=ld))
    if lk is None:
        return
    step("Linker.AddModule(module)", lambda: lk.AddModule(mod))
    prog = step("Linker.Link()", lambda: lk.Link())
    if prog is None:
        return
    step("Program.Functions / Program.Globals", lambda: (prog.Functions["smoke__"].Type.Arguments, list(prog.Globals.items())))
    vm = step("VirtualMachine(program)", lambda: VM.VirtualMachine(prog))
    if vm is None:
        return
    step("VirtualMachine.SetGlobal(name, value)", lambda: vm.SetGlobal("smokeg__", 1))
    step("VirtualMachine.Invoke(name, **arguments)", lambda: vm.Invoke("smoke__", a=2))
    step("VirtualMachine.GetGlobal(name)", lambda: vm.GetGlobal("smokeg__"))


def run_isolated(fn, arg, timeout_s: float):
    """Run fn(arg) in a pristine forked child; return its JSON-able result.

    The child inherits the imported (but otherwise untouched) system under
    test from this worker, executes exactly one scenario and _exit()s, so no
    state of the code under test can leak from one scenario to the next.
    Returns {"verdict": "timeout"} / {"verdict": "harness-error", ...} when
    the child does not deliver a result.
    """
    r, w = os.pipe()
    sys.stdout.flush()
    sys.stderr.flush()
    pid = os.fork()
    if pid == 0:
        code = 0
        try:
            os.close(r)
            try:
                import faulthandler

                faulthandler.dump_traceback_later(timeout_s + 5, exit=True)
            except Exception:
                pass
            try:
                res = fn(arg)
            except BaseException as e:  # harness bug inside execute
                res = {
                    "verdict": "harness-error",
                    "detail": "".join(traceback.format_exception(type(e), e, e.__traceback__))[-2000:],
                }
            data = canon(res).encode()
            with os.fdopen(w, "wb") as f:
                f.write(data)
        except BaseException:
            code = 3
        finally:
            os._exit(code)
    os.close(w)
    chunks = []
    deadline = time.monotonic() + timeout_s
    timed_out = False
    try:
        while True:
            left = deadline - time.monotonic()
            if left <= 0:
                timed_out = True
                break
            rl, _, _ = select.select([r], [], [], min(left, 1.0))
            if rl:
                b = os.read(r, 1 << 16)
                if not b:
                    break
                chunks.append(b)
    finally:
        os.close(r)
    if timed_out:
        try:
            os.kill(pid, signal.SIGKILL)
        except ProcessLookupError:
            pass
    _, status = os.waitpid(pid, 0)
    if timed_out:
        return {"verdict": "timeout", "detail": f"no result within {timeout_s}s"}
    data = b"".join(chunks)
    if not data:
        return {"verdict": "harness-error", "detail": f"child died, wait status {status}"}
    try:
        return json.loads(data)
    except Exception as e:
        return {"verdict": "harness-error", "detail": f"bad child result: {e}"}


# ---------------------------------------------------------------- stdout silencing


class Quiet:
    """Capture the prints of the code under test (it reports errors with
    print()).  Captured text is available as .text."""

    def __enter__(self):
        import io

        self._o, self._e = sys.stdout, sys.stderr
        self.buf = io.StringIO()
        sys.stdout = sys.stderr = self.buf
        return self

    def __exit__(self, *a):
        sys.stdout, sys.stderr = self._o, self._e
        return False

    @property
    def text(self):
        return self.buf.getvalue()


# ---------------------------------------------------------------- parallel seeded search
#
# fork() costs ~5 ms in this sandbox and does not scale across concurrently
# forking processes (measured: 16 processes forking at once -> 125 forks/s in
# total), so the unit of process isolation is a *chunk* of runs: the parent -
# the only process that ever forks - starts one pristine child per chunk; the
# child generates and executes its runs one after the other and exits.  A
# violation reported from inside a chunk is then re-executed alone in a pristine
# child; when it does not reproduce alone, the chunk prefix that led to it
# becomes the (replayable) scenario, see execute_one/sequence below.


def execute_one(mod, sc):
    """Execute a scenario, or a recorded sequence of scenarios (state of the
    code under test may carry from one to the next inside a process)."""
    if sc.get("kind") == "sequence":
        res = None
        for sub in sc["scenarios"]:
            res = mod.execute(sub)
        return res
    return mod.execute(sc)


def run_pristine(mod, sc):
    res = run_isolated(lambda s: execute_one(mod, s), sc, timeout_of(mod, sc))
    if res.get("verdict") == "timeout" and hasattr(mod, "on_timeout"):
        res = mod.on_timeout(sc, res)
    return res


def timeout_of(mod, sc):
    if sc.get("kind") == "sequence":
        return sum(mod.timeout_s(x) for x in sc["scenarios"])
    return mod.timeout_s(sc)


def _chunk_body(args):
    """Executed inside a pristine forked child: generate + execute a chunk."""
    mod, base_seed, idxs, tier, env = args
    mod.worker_init(env)
    out = []
    for i in idxs:
        seed = run_seed(mod.ID, base_seed, i)
        t0 = time.monotonic()
        try:
            sc = mod.generate(seed, tier)
        except BaseException as e:
            out.append(
                {
                    "i": i,
                    "seed": seed,
                    "verdict": "harness-error",
                    "detail": "generate: " + "".join(traceback.format_exception(type(e), e, e.__traceback__))[-1500:],
                }
            )
            continue
        try:
            res = mod.execute(sc)
        except BaseException as e:
            res = {
                "verdict": "harness-error",
                "detail": "execute: " + "".join(traceback.format_exception(type(e), e, e.__traceback__))[-1500:],
            }
        res["i"] = i
        res["seed"] = seed
        res["wall"] = round(time.monotonic() - t0, 4)
        res["sc_digest"] = digest(sc)
        if res.get("verdict") not in ("ok", "discard") or i < 2:
            res["scenario"] = sc
        out.append(res)
    return {"results": out}


class _Slot:
    __slots__ = ("pid", "fd", "buf", "idxs", "deadline", "proc")


class Search:
    """Seeded search over runs of one property: W chunk children at a time,
    all forked by this (single-threaded) parent."""

    def __init__(self, mod, tier, base_seed, env, workers=None):
        self.mod = mod
        self.tier = tier
        self.base_seed = base_seed
        self.env = env
        self.workers = workers or int(os.environ.get("VERIF_WORKERS", "0")) or min(16, os.cpu_count() or 1)
        self.results = []
        self.wall = 0.0

    def _spawn(self, idxs):
        import subprocess

        job = {
            "module": self.mod.__name__,
            "base_seed": self.base_seed,
            "idxs": idxs,
            "tier": self.tier,
            "env": self.env,
        }
        env = dict(os.environ)
        env["PYTHONHASHSEED"] = os.environ.get("NSLSIM_HARNESS_HASHSEED", "0")
        env["PYTHONPYCACHEPREFIX"] = os.path.join(scratch_root(), "pycache")
        env.pop("PYTHONDONTWRITEBYTECODE", None)
        p = subprocess.Popen(
            [PYTHON, "-m", "sim.worker"],
            cwd=VERIF,
            env=env,
            stdin=subprocess.PIPE,
            stdout=subprocess.PIPE,
            stderr=subprocess.DEVNULL,
        )
        p.stdin.write(canon(job).encode())
        p.stdin.close()
        s = _Slot()
        s.proc = p
        s.pid, s.fd, s.buf, s.idxs = p.pid, p.stdout.fileno(), [], idxs
        per = max(self.mod.timeout_s({}) if _accepts_empty(self.mod) else 60.0, 1.0)
        s.deadline = time.monotonic() + 30 + per * len(idxs)
        return s

    def _one_by_one(self, idxs, why):
        """Slow path after a chunk child died or hung: every run of the chunk
        in its own pristine child with its own timeout."""
        out = []
        for i in idxs:
            seed = run_seed(self.mod.ID, self.base_seed, i)
            try:
                sc = self.mod.generate(seed, self.tier)
            except BaseException as e:
                out.append({"i": i, "seed": seed, "verdict": "harness-error", "detail": f"generate: {e!r}"})
                continue
            res = run_pristine(self.mod, sc)
            res["i"] = i
            res["seed"] = seed
            res["sc_digest"] = digest(sc)
            res["after_chunk_failure"] = why
            if res.get("verdict") not in ("ok", "discard"):
                res["scenario"] = sc
            out.append(res)
        return out

    def _confirm(self, r, chunk_results):
        """Re-execute a violation alone in a pristine child."""
        sc = r["scenario"]
        # up to three attempts: a defect that depends on something the simulator does not own
        # (CPython heap addresses) need not show in every execution of the same scenario
        for attempt in range(3):
            alone = run_pristine(self.mod, sc)
            if alone.get("verdict") == "violation" and alone.get("oracle") == r.get("oracle"):
                r["confirmed"] = "alone" if attempt == 0 else f"alone (attempt {attempt + 1})"
                r["digest_alone"] = alone.get("digest")
                return r
            if alone.get("digest") == r.get("digest"):
                break  # same events, no violation: the chunk's history matters, not chance
        # not reproducible alone: the history is the chunk prefix
        prefix = []
        for x in chunk_results:
            if x["i"] > r["i"]:
                break
            prefix.append(self.mod.generate(x["seed"], self.tier))
        seq = {"kind": "sequence", "scenarios": prefix}
        again = run_pristine(self.mod, seq)
        if again.get("verdict") == "violation" and again.get("oracle") == r.get("oracle"):
            r["confirmed"] = "sequence"
            r["scenario"] = seq
            return r
        r["verdict"] = "harness-error"
        r["detail"] = f"violation {r.get('oracle')} ({r.get('detail')}) did not reproduce in a pristine process"
        return r

    def run(self, n_runs=None, budget_s=None, chunk=20, stop_on_violation=True, first_index=0, on_result=None):
        t0 = time.monotonic()
        results = []
        next_i = first_index
        stop = False
        slots = {}
        confirmed_classes = set()

        def submit():
            nonlocal next_i
            hi = next_i + chunk
            if n_runs is not None:
                hi = min(hi, first_index + n_runs)
            if hi <= next_i:
                return False
            s = self._spawn(list(range(next_i, hi)))
            slots[s.fd] = s
            next_i = hi
            return True

        def finish(s, killed=False):
            if killed:
                s.proc.kill()
            s.proc.stdout.close()
            s.proc.wait()
            data = b"".join(s.buf)
            doc = None
            if data and not killed:
                try:
                    doc = json.loads(data)
                except Exception:
                    doc = None
            if doc is None or "results" not in doc:
                why = "chunk child hung" if killed else "chunk child died: " + str((doc or {}).get("error", "no output"))[-300:]
                return self._one_by_one(s.idxs, why)
            out = doc["results"]
            for r in out:
                if r.get("verdict") == "violation":
                    cls = (r.get("oracle"), r.get("finding_key"))
                    if cls in confirmed_classes and stop_on_violation:
                        # the search is already stopping on a confirmed violation of this
                        # class; do not spend minutes re-confirming the in-flight ones
                        r["confirmed"] = "skipped (class already confirmed)"
                        continue
                    self._confirm(r, out)
                    if r.get("verdict") == "violation":
                        confirmed_classes.add(cls)
            return out

        for _ in range(self.workers):
            if not submit():
                break
        while slots:
            rl, _, _ = select.select(list(slots), [], [], 1.0)
            now = time.monotonic()
            finished = []
            for fd in rl:
                s = slots[fd]
                b = os.read(fd, 1 << 20)
                if b:
                    s.buf.append(b)
                else:
                    finished.append((s, False))
            for fd, s in list(slots.items()):
                if now > s.deadline and all(s is not f[0] for f in finished):
                    finished.append((s, True))
            for s, killed in finished:
                del slots[s.fd]
                for r in finish(s, killed):
                    if on_result is not None:
                        on_result(r)
                    results.append(r)
                    if r.get("verdict") == "violation" and stop_on_violation:
                        stop = True
                if budget_s is not None and time.monotonic() - t0 > budget_s:
                    stop = True
                if not stop:
                    submit()
        results.sort(key=lambda r: r["i"])
        self.results = results
        self.wall = time.monotonic() - t0
        return results


def _accepts_empty(mod):
    try:
        mod.timeout_s({})
        return True
    except Exception:
        return False


# ---------------------------------------------------------------- shrinking


def shrink(mod, scenario, same_failure, max_evals=2000, max_s=60.0):
    """Greedy delta debugging: repeatedly try the candidate reductions the
    property module proposes; keep one when the same failure persists.
    same_failure(result) -> bool."""
    t0 = time.monotonic()
    evals = 0
    cur = scenario
    improved = True
    while improved:
        improved = False
        for cand in _candidates(mod, cur):
            if evals >= max_evals or time.monotonic() - t0 > max_s:
                return cur, evals
            evals += 1
            try:
                res = run_pristine(mod, cand)
            except BaseException:
                continue
            if same_failure(res):
                cur = cand
                improved = True
                break
    return cur, evals


def _candidates(mod, sc):
    if sc.get("kind") == "sequence":
        scs = sc["scenarios"]
        # the failing scenario is the last one; drop earlier ones
        for keep in list_reductions(scs[:-1]):
            yield {"kind": "sequence", "scenarios": keep + scs[-1:]}
        return
    yield from mod.shrink_candidates(sc)


def list_reductions(xs, min_len=0):
    """ddmin-style candidates for a list: drop halves, quarters, ..., singles."""
    n = len(xs)
    if n <= min_len:
        return
    size = max(n // 2, 1)
    seen = set()
    while size >= 1:
        for start in range(0, n, size):
            cand = xs[:start] + xs[start + size :]
            if len(cand) >= min_len:
                key = (start, size)
                if key not in seen:
                    seen.add(key)
                    yield cand
        size //= 2


# ---------------------------------------------------------------- replay + findings


def write_replay(prop, seed, scenario, result, extra=None):
    d = os.environ.get("NSLSIM_REPLAY_DIR") or os.path.join(VERIF, "replays")
    os.makedirs(d, exist_ok=True)
    path = os.path.join(d, f"{prop}-{seed}.json")
    doc = {
        "property": prop,
        "seed": seed,
        "oracle": result.get("oracle"),
        "detail": result.get("detail"),
        "finding_key": result.get("finding_key"),
        "event_digest": result.get("digest"),
        "events_tail": result.get("events_tail"),
        "scenario": scenario,
    }
    if extra:
        doc.update(extra)
    with open(path, "w") as f:
        json.dump(doc, f, indent=1, sort_keys=True)
    return path


def load_known_findings():
    p = os.path.join(VERIF, "known_findings.json")
    if not os.path.exists(p):
        return []
    with open(p) as f:
        return json.load(f).get("findings", [])


def match_known(prop, result, findings):
    """A finding matches when it is status=known for this property and every
    key of its 'signature' equals the same key of the violation result."""
    for f in findings:
        if f.get("status") != "known" or f.get("property") != prop:
            continue
        sig = f.get("signature", {})
        if sig and all(result.get(k) == v for k, v in sig.items()):
            return f
    return None


# ---------------------------------------------------------------- evidence


def write_evidence(prop, tier, seed, coverage, wall_s, violations, assumptions):
    d = os.path.join(VERIF, "evidence")
    os.makedirs(d, exist_ok=True)
    doc = {
        "property_id": prop,
        "tier": tier,
        "seed": seed,
        "level": "exploration",
        "coverage": coverage,
        "assumptions": assumptions,
        "wall_s": round(wall_s, 3),
        "violations": violations,
    }
    tmp = os.path.join(d, f".{prop}.json.tmp")
    with open(tmp, "w") as f:
        json.dump(doc, f, indent=1, sort_keys=True)
    os.replace(tmp, os.path.join(d, f"{prop}.json"))


def merge_counts(total, stats):
    for k, v in (stats or {}).items():
        if isinstance(v, (int, float)):
            total[k] = total.get(k, 0) + v
