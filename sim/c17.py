"""C17 - a stored IR module reloads to the same program.

World: a private store directory; the real nslc.py as writer process (own
PYTHONHASHSEED, legal short writes / small buffers through sim/boot.py), the
real FilesystemModuleLoader in reader processes (other hash seed, short
reads, other cwd) and, for the "same process" half of the statement,
in-process write + load.  Reference model: a map name -> (source, opt level)
of the last completed write.  Oracle: what a reader loads under a name must
list, be structured and behave exactly like a fresh compilation of the
model's entry for that name.
"""
import copy
import hashlib
import json
import os
import re
import pickle
import shutil
import subprocess
import sys

from . import core, repo

ID = "C17"

_env = None
BOOT = os.path.join(core.VERIF, "sim", "boot.py")
JOB = os.path.join(core.VERIF, "sim", "job17.py")


def worker_init(env):
    global _env
    if _env is not None:
        return
    _env = env
    if "nsl" not in sys.modules or not getattr(sys.modules["nsl"], "__path__", [""])[0].startswith(env["tree"]):
        repo.activate(env["tree"])


def timeout_s(sc):
    return 60.0 + 30.0 * len(sc.get("steps", []))


# ------------------------------------------------------------------ generation


def _io_plan(rng, kind):
    c = rng.random()
    if c < 0.35:
        return {}
    plan = {"bufsize": rng.choice([16, 64, 512, 8192, 65536])}
    if c < 0.9:
        plan["short_" + kind] = rng.choice([1, 3, 7, 64, 512, 4096])
    return plan


def generate(seed, tier):
    from . import c18

    rng = core.sub_rng(seed, "c17.sched")
    srng = core.sub_rng(seed, "c17.sources")
    files, libvers = c18.corpus()
    libs = libvers["0"]
    with_imports = rng.random() < 0.3
    pool = [src for name, src in files if ("import " not in src or (with_imports and "nowhere" not in src))]
    if with_imports:
        pool = [s for s in pool if "import " in s] * 6 + pool
    for _ in range(rng.choice([2, 4, 8, 16])):
        pool.append(c18._generated_source(srng))
    names = [f"M{k}" for k in range(rng.randint(1, 3))]
    bare_files = rng.random() < 0.2
    steps = []
    if with_imports:
        for lname, lsrc in libs:
            steps.append({"op": "write", "file": lname + ".nslir", "src": len(pool), "opt": 0, "how": "cli",
                          "hs": rng.randint(0, 2 ** 32 - 1), "io": _io_plan(rng, "write")})
            pool.append(lsrc)
    used = set(s["src"] for s in steps)
    written = []
    n_rounds = rng.randint(1, 3)
    for rd in range(n_rounds):
        wnames = names if rd == 0 else rng.sample(names, rng.randint(1, len(names)))
        for nm in wnames:
            i = rng.randrange(len(pool) - (len(libs) if with_imports else 0))
            used.add(i)
            # the documented loader contract: the exact path first, then with '.nslir'
            fn = nm if (bare_files and rng.random() < 0.35) else nm + ".nslir"
            if fn not in written:
                written.append(fn)
            steps.append(
                {
                    "op": "write",
                    "file": fn,
                    "src": i,
                    "opt": rng.randrange(2),
                    "how": "cli" if rng.random() < 0.8 else "inproc",
                    "hs": rng.randint(0, 2 ** 32 - 1),
                    "io": _io_plan(rng, "write"),
                    # where the source lives and how the paths are spelled on the command line
                    "layout": rng.choice(["flat", "flat", "subdir", "abs", "abs-out", "prepared", "prepared"]),
                }
            )
        for _ in range(rng.randint(1, 2)):
            how = "child" if rng.random() < 0.65 else "inproc"
            # an in-process reader (cheap) looks at everything that was written so far
            rn = list(written) if how == "inproc" else rng.sample(written, rng.randint(1, len(written)))
            loads = []
            for fn in rn:
                if fn.endswith(".nslir") and rng.random() < 0.5:
                    loads.append(fn[: -len(".nslir")])  # resolves to the bare file if one exists, else to fn
                else:
                    loads.append(fn)
            cwd = "store" if (with_imports or rng.random() < 0.6) else "other"
            steps.append(
                {
                    "op": "read",
                    "names": loads,
                    "how": how,
                    "cwd": cwd,
                    "hs": rng.randint(0, 2 ** 32 - 1),
                    "io": _io_plan(rng, "read"),
                    # in-process readers: one loader object kept by the host for the whole
                    # history, or a new one per load
                    "loader": rng.choice(["host", "host", "fresh"]),
                    # additionally run exported functions of the stored module through nslr.py
                    "nslr": rng.random() < 0.3,
                    # where the fresh references come from: compiled in the reader before it loads
                    # anything, or compiled by the harness process while the reader only loads
                    "refs": rng.choice(["reader", "worker"]),
                }
            )
    if rng.random() < 0.08:
        # beyond-statement probes P2 / P3: never judged, only tallied
        i = rng.randrange(len(pool))
        used.add(i)
        steps.append(
            {
                "op": "write",
                "file": rng.choice(written),
                "src": i,
                "opt": 0,
                "how": "cli",
                "hs": 0,
                "io": {rng.choice(["enospc_at", "kill_at"]): rng.choice([0, 10, 100, 1000, 5000]),
                       "bufsize": rng.choice([16, 8192])},
                "probe": True,
            }
        )
        steps.append({"op": "read", "names": [steps[-1]["file"]], "how": "child", "cwd": "store",
                      "hs": 1, "io": {}, "probe": True})
    idx = sorted(used)
    remap = {i: k for k, i in enumerate(idx)}
    for s in steps:
        if "src" in s:
            s["src"] = remap[s["src"]]
    return {"kind": "c17", "seed": seed, "sources": [pool[i] for i in idx], "steps": steps, "obs_seed": seed % 100000}


# ------------------------------------------------------------------ execution


def _compile_inproc(src, opt):
    from nsl import Compiler

    with core.Quiet() as q:
        try:
            res = Compiler.Compiler().Compile(src, {"optimize": bool(opt)})
        except SystemExit:
            return None, "exit"
        except Exception as e:
            return None, "exc:" + type(e).__name__
    if res is None:
        return None, "reject"
    return res.IRModule, "ok"


_store_checked = {"ok": False}


def _check_own_store(path):
    """A module file the harness wrote itself (pickle, as nslc.py does) must be readable by the
    product's loader; otherwise the stored format has changed and the harness is out of date."""
    if _store_checked["ok"]:
        return
    from nsl import Compiler, LinearIR

    # probed with a trivial module of its own: a loader that chokes on a particular *program* is a
    # violation, not a format change
    probe = os.path.join(os.path.dirname(path), "FormatProbe__.nslir")
    try:
        with core.Quiet():
            pm = Compiler.Compiler().Compile("export function probe__(int a) -> int { return a; }")
        with open(probe, "wb") as f:
            pickle.dump(pm.IRModule, f)
        LinearIR.FilesystemModuleLoader().Load(probe)
        os.unlink(probe)
    except Exception as e:
        raise core.HarnessError(
            f"a module stored by the harness with pickle is not loadable by the product's loader "
            f"({type(e).__name__}: {e}); the stored-module format seems to have changed")
    _store_checked["ok"] = True


def _run_child(argv, cwd, hs, tree, timeout=90):
    env = repo.child_env(tree, hs)
    try:
        p = subprocess.run([sys.executable] + argv, cwd=cwd, env=env, capture_output=True, text=True, timeout=timeout,
                           stdin=subprocess.DEVNULL)
    except subprocess.TimeoutExpired:
        return None, "", "timeout"
    return p.returncode, p.stdout, p.stderr


def _snapshot(store):
    """Module files at the top of the store: name -> (mtime_ns, size)."""
    out = {}
    for e in os.scandir(store):
        if e.is_file() and not e.name.endswith(".nsl"):
            s_ = e.stat()
            out[e.name] = (s_.st_mtime_ns, s_.st_size)
    return out


def _stats_of(stderr):
    for line in reversed(stderr.splitlines()):
        if line.startswith("STATS "):
            try:
                return json.loads(line[6:])
            except Exception:
                return {}
    return {}


def _io_class(io):
    if not io:
        return "default"
    if "enospc_at" in io or "kill_at" in io:
        return "fault"
    k = io.get("short_read") or io.get("short_write")
    return ("short" if k else "buffered") + ("-tinybuf" if io.get("bufsize", 8192) <= 64 else "")


def _strip(ob):
    return {k: v for k, v in ob.items() if k not in ("text",)}


def _compare(loaded, fresh):
    """None when equal; otherwise (oracle, detail)."""
    if loaded["listing"] != fresh["listing"] or loaded["functions"] != fresh["functions"]:
        d = ""
        if loaded.get("text") and fresh.get("text"):
            la, lb = loaded["text"].splitlines(), fresh["text"].splitlines()
            for n, (x, y) in enumerate(zip(la, lb)):
                if x != y:
                    d = f": first differing line {n}: loaded {x!r} vs fresh {y!r}"
                    break
            else:
                d = f": {len(la)} vs {len(lb)} lines"
        return "listing-differs", f"functions {loaded['functions']} vs {fresh['functions']}{d}"
    for k in ("globals", "imports", "metadata"):
        if loaded[k] != fresh[k]:
            return "structure-differs", f"{k}: loaded {loaded[k]!r} vs fresh {fresh[k]!r}"
    if loaded["behaviour"] != fresh["behaviour"]:
        for x, y in zip(loaded["behaviour"], fresh["behaviour"]):
            if x != y:
                return "behaviour-differs", f"loaded {x!r} vs fresh {y!r}"
        return "behaviour-differs", "different number of observations"
    return None


def execute(sc, want_texts=False):
    root = os.path.join(_env["scratch"], "c17", f"s{sc.get('seed', 0)}-{os.getpid()}")
    if os.path.exists(root):
        shutil.rmtree(root)
    os.makedirs(os.path.join(root, "store"))
    os.makedirs(os.path.join(root, "other"))
    old = os.getcwd()
    try:
        return _execute(sc, root, want_texts)
    finally:
        os.chdir(old)
        shutil.rmtree(root, ignore_errors=True)


def _execute(sc, root, want_texts):
    from nsl import LinearIR

    from . import obs17

    store = os.path.join(root, "store")
    other = os.path.join(root, "other")
    tree = _env["tree"]
    log = core.EventLog()
    stats = {}
    shapes = set()

    def bump(k, n=1):
        stats[k] = stats.get(k, 0) + n

    def done(verdict, oracle=None, detail=None, **kw):
        r = {
            "verdict": verdict,
            "oracle": oracle,
            "detail": detail,
            "digest": log.digest(),
            "stats": stats,
            "events_tail": log.lines[-6:],
            "shapes": sorted(shapes),
            "nontrivial": stats.get("loads_compared", 0) >= 1 and stats.get("invocations_compared", 0) >= 1,
        }
        r.update(kw)
        return r

    # all sources also exist up front (older than every module file that will be written)
    os.makedirs(os.path.join(store, "prepared"), exist_ok=True)
    for k_, src_ in enumerate(sc["sources"]):
        with open(os.path.join(store, "prepared", f"src{k_}.nsl"), "w") as f:
            f.write(src_)
    host_loader = LinearIR.FilesystemModuleLoader()  # the host keeps one loader for the whole history
    model = {}  # name -> {"src": i, "opt": o, "writes": n} | {"unknown": True}
    history = {}  # name -> list of earlier (src, opt)
    accepted = {}
    nstep = 0

    def is_accepted(i, opt):
        k = (i, opt)
        if k not in accepted:
            os.chdir(store)
            m, st = _compile_inproc(sc["sources"][i], opt)
            accepted[k] = (st == "ok", st)
        return accepted[k]

    for si, st in enumerate(sc["steps"]):
        nstep += 1
        probe = bool(st.get("probe"))
        if st["op"] == "write":
            name, i, opt = st["file"], st["src"], st["opt"]
            base = name[: -len(".nslir")] if name.endswith(".nslir") else name + "-bare"
            src = sc["sources"][i]
            if "import " in src:
                needed = [l.split('"')[1] for l in src.splitlines() if l.strip().startswith("import ")]
                if any(not os.path.exists(os.path.join(store, n + ".nslir")) for n in needed):
                    continue  # (shrunk) the libraries were never written
            layout = st.get("layout", "flat") if st["how"] == "cli" else "flat"
            srcdir = os.path.join(store, "src") if layout == "subdir" else store
            os.makedirs(srcdir, exist_ok=True)
            with open(os.path.join(srcdir, base + ".nsl"), "w") as f:
                f.write(src)
            if "import " in src and layout in ("subdir", "prepared"):
                # whether imports are looked up in the working directory or next to the source file is
                # the tool's policy, not C17's: the libraries are in both places
                for n_ in needed:
                    shutil.copy(os.path.join(store, n_ + ".nslir"),
                                os.path.join(store, "src" if layout == "subdir" else "prepared", n_ + ".nslir"))
            src_arg = {"flat": base + ".nsl", "subdir": os.path.join("src", base + ".nsl"),
                       "abs": os.path.join(store, base + ".nsl"), "abs-out": base + ".nsl",
                       # a source file that has been lying around since before anything was built
                       "prepared": os.path.join("prepared", f"src{i}.nsl")}[layout]
            out_arg = os.path.join(store, name) if layout in ("abs", "abs-out") else name
            bump("writer_layout_" + layout)
            ok_ref, why = is_accepted(i, opt)
            sd = hashlib.sha256(src.encode()).hexdigest()[:10]
            if st["how"] == "cli":
                ioplan = dict(st["io"], store=store)
                iop = os.path.join(root, f"io{si}.json")
                with open(iop, "w") as f:
                    json.dump(ioplan, f)
                argv = [BOOT, iop, os.path.join(tree, "nslc.py")] + (["-O", "1"] if opt else []) + [
                    "-o", out_arg, src_arg]
                before = _snapshot(store)
                code, out, err = _run_child(argv, store, st["hs"], tree)
                bump("writer_processes")
                s = _stats_of(err)
                bump("io_short_writes_fired", s.get("short_writes", 0))
                bump("io_raw_writes", s.get("raw_writes", 0))
                # acknowledged = the driver reported success (exit 0); what it prints is not relied on
                wrote = code == 0
                log.add("write", name=name, src=sd, opt=opt, how="cli", hs=st["hs"], io=_io_class(st["io"]), code=code,
                        wrote=wrote)
                if probe:
                    bump(f"probe_{'enospc' if 'enospc_at' in st['io'] else 'kill'}_exit_{code}_acknowledged_{wrote}")
                    model[name] = {"unknown": True}
                    continue
                if code is None:
                    return done("harness-error", "child", f"writer timed out at step {si}")
                if code < 0 or "MemoryError" in (err or "") or "Errno 28" in (err or ""):
                    # killed by a signal / out of memory / scratch file system full, with no fault injected:
                    # the environment, not the product
                    return done("harness-error", "child", f"writer at step {si} died of its environment "
                                                          f"(exit {code}): {(err or '')[-200:]}")
                ok = code == 0 and wrote
                if ok:
                    # the file that was really written is the one the model speaks about (a tool that
                    # completes a suffix-less -o name writes another file than the one named)
                    changed = [fn for fn, sig in _snapshot(store).items() if before.get(fn) != sig]
                    if name not in changed and len(changed) == 1:
                        bump("writer_wrote_another_file_than_named")
                        name = changed[0]
            else:
                os.chdir(store)
                m, status = _compile_inproc(src, opt)
                ok = m is not None
                if ok:
                    try:
                        data = pickle.dumps(m)
                    except Exception as e:  # the accepted program cannot be serialised
                        ok, status = False, f"{type(e).__name__}: {str(e)[:80]}"
                    else:
                        with open(os.path.join(store, name), "wb") as f:
                            f.write(data)
                        _check_own_store(os.path.join(store, name))
                bump("writes_inproc")
                log.add("write", name=name, src=sd, opt=opt, how="inproc", ok=ok)
                code, err = (0 if ok else 1), status
            shapes.add(f"w:{st['how']}:{_io_class(st['io'])}:O{opt}")
            if ok and not ok_ref:
                return done("discard", "writer-accepts-what-reference-rejects", f"step {si}: {why}")
            if not ok:
                if ok_ref:
                    tail = (err or "").strip().splitlines()[-1:] if isinstance(err, str) else err
                    # why it failed: the exception class that ended the writer (stderr's last line)
                    cls = "exit-" + str(code)
                    for line in reversed((err or "").strip().splitlines()):
                        if line.startswith("STATS "):
                            continue
                        cls = line.split(":")[0].strip().split(".")[-1] or cls
                        break
                    return done(
                        "violation",
                        "writer-failed",
                        f"step {si}: writing {name} ({st['how']}, -O{opt}, io {_io_class(st['io'])}, hash seed {st['hs']}) "
                        f"failed (exit {code}, {tail}) although a fresh compilation accepts the program "
                        f"(source sha256[:10] {sd})",
                        finding_key="writer-failed:" + cls,
                        input_digest=sd,
                    )
                bump("unaccepted_programs")
                if st["how"] == "cli":
                    # nslc.py truncates its output file before compiling (probe P3): content unknown
                    model[name] = {"unknown": True}
                continue
            if name in model and not model[name].get("unknown"):
                history.setdefault(name, []).append((model[name]["src"], model[name]["opt"]))
                bump("overwrites")
            model[name] = {"src": i, "opt": opt}
            bump("writes_completed")
            continue

        # ---- read
        import pathlib

        def resolve(load):
            if load in model:
                return load
            alt = str(pathlib.PurePath(load).with_suffix(".nslir"))
            return alt if alt in model else None

        wanted = [(load, resolve(load)) for load in st["names"] if resolve(load) is not None]
        if not wanted:
            continue
        cwd = store if st["cwd"] == "store" else other
        # the fresh references are compiled and observed *before* anything is loaded in the
        # reader: a load that disturbs process-wide state must not be able to hide itself by
        # disturbing its own reference in the same way
        load_tasks = []
        fresh_tasks = []
        plan_names = []
        for load, key in wanted:
            rel = load if st["cwd"] == "store" else os.path.join("..", "store", load)
            load_tasks.append({"op": "load", "name": rel})
            ent = model[key]
            if not ent.get("unknown"):
                fresh_tasks.append({"op": "compile", "src": sc["sources"][ent["src"]], "opt": ent["opt"]})
            plan_names.append((key, "exact" if load == key else "bare", rel))
            if load != key:
                bump("loads_by_bare_name")
            elif not key.endswith(".nslir"):
                bump("loads_of_suffixless_file")
        worker_refs = st.get("refs") == "worker" and st["how"] == "child"
        if worker_refs:
            # a load-only reader process; the references are observed here, in another process
            os.chdir(store)
            wres = []
            for t in fresh_tasks:
                m, status = _compile_inproc(t["src"], t["opt"])
                if m is None:
                    wres.append({"status": status})
                else:
                    with core.Quiet():
                        wres.append({"status": "ok", "obs": obs17.observe_module(m, sc.get("obs_seed", 0),
                                                                                   with_text=bool(want_texts))})
            bump("reads_with_references_from_another_process")
            n_fresh = len(fresh_tasks)
            fresh_tasks = []
        # an in-process reader goes round several times: load, use, drop - load, use, drop ...
        rounds = 3 if st["how"] == "inproc" else 1
        tasks = fresh_tasks + load_tasks * rounds
        if st["how"] == "child":
            plan = {"tree": tree, "cwd": cwd, "seed": sc.get("obs_seed", 0), "tasks": tasks, "texts": bool(want_texts),
                    "out": os.path.join(root, f"read{si}.json")}
            pp = os.path.join(root, f"plan{si}.json")
            with open(pp, "w") as f:
                json.dump(plan, f)
            iop = os.path.join(root, f"io{si}.json")
            with open(iop, "w") as f:
                json.dump(dict(st["io"], store=store), f)
            code, out, err = _run_child([BOOT, iop, JOB, pp], cwd, st["hs"], tree)
            bump("reader_processes")
            s = _stats_of(err or "")
            bump("io_short_reads_fired", s.get("short_reads", 0))
            bump("io_raw_reads", s.get("raw_reads", 0))
            if not os.path.exists(plan["out"]):
                if probe:
                    bump("probe_reader_died")
                    continue
                return done("harness-error", "child", f"reader at step {si} gave no result: exit {code}: {(err or '')[-300:]}")
            with open(plan["out"]) as f:
                results = json.load(f)["results"]
        else:
            os.chdir(cwd)
            results = []
            bump("reads_inproc")
            import gc

            for t in tasks:
                # a long-lived host: every module it is done with is really gone before the next
                # one is loaded (object addresses get reused)
                m = None
                gc.collect()
                try:
                    with core.Quiet():
                        if t["op"] == "load":
                            ld = host_loader if st.get("loader", "host") == "host" else LinearIR.FilesystemModuleLoader()
                            m = ld.Load(t["name"])
                        else:
                            m, status = _compile_inproc(t["src"], t["opt"])
                            if m is None:
                                results.append({"status": status})
                                continue
                        results.append({"status": "ok", "obs": obs17.observe_module(m, sc.get("obs_seed", 0),
                                                                                     with_text=bool(want_texts))})
                except Exception as e:
                    results.append({"status": "exc", "exc": type(e).__name__, "msg": str(e)[:200]})
        shapes.add(f"r:{st['how']}:{_io_class(st['io'])}:{st['cwd']}")
        if st.get("nslr") and not probe:
            r = _nslr_reads(sc, st, si, plan_names, model, store, cwd, tree, log, bump)
            if r is not None:
                return done(*r[:3], **r[3])
        if worker_refs:
            results = wres + results
        kl = n_fresh if worker_refs else len(fresh_tasks)
        for n, style, rel in [x for _rnd in range(rounds) for x in plan_names]:
            if (kl - (n_fresh if worker_refs else len(fresh_tasks))) % max(1, len(plan_names)) == 0:
                kf = 0  # a new round over the same names: the references start over
            loaded = results[kl]
            kl += 1
            ent = model[n]
            if ent.get("unknown"):
                bump("probe_load_of_unacknowledged_" + loaded["status"] + ("_" + loaded.get("exc", "") if loaded.get("exc") else ""))
                log.add("read", name=n, judged=False, status=loaded["status"])
                continue
            fresh = results[kf]
            kf += 1
            log.add("read", name=n, style=style, how=st["how"], hs=st["hs"], io=_io_class(st["io"]), cwd=st["cwd"],
                    status=loaded["status"],
                    d=core.digest(_strip(loaded["obs"])) if loaded["status"] == "ok" else None)
            if fresh["status"] != "ok":
                return done("discard", "fresh-compile-failed-in-reader", f"step {si}: {fresh}")
            ctx = (f"step {si}: {n} (loaded as {rel!r}, reader {st['how']}, hash seed {st['hs']}, io "
                   f"{_io_class(st['io'])}, cwd {st['cwd']}; last write: source #{ent['src']} -O{ent['opt']})")
            if loaded["status"] != "ok":
                return done(
                    "violation",
                    "load-failed",
                    f"{ctx}: loading failed with {loaded.get('exc', loaded['status'])}: {loaded.get('msg', '')}",
                    finding_key="load-" + str(loaded.get("exc", loaded["status"])),
                )
            bump("loads_compared")
            bump("invocations_compared", loaded["obs"].get("invocations", 0))
            if history.get(n):
                bump("loads_after_overwrite")
            diff = _compare(loaded["obs"], fresh["obs"])
            if diff is not None:
                fk = diff[0]
                # does it match an older generation of this name?  (stale content)
                if history.get(n) and want_texts is False:
                    fk = diff[0] + ("-after-overwrite")
                return done("violation", diff[0], f"{ctx}: {diff[1]}", finding_key=fk)
    bump("steps", nstep)
    return done("ok")


def _nslr_reads(sc, st, si, plan_names, model, store, cwd, tree, log, bump):
    """The shipped reader: `nslr.py run <file> <function> <args>` on the stored module and, as
    the reference, the same command on a module the harness compiled afresh and pickled itself."""
    import random

    n = 0
    for key, style, rel in plan_names:
        ent = model[key]
        if ent.get("unknown") or n >= 2:
            continue
        os.chdir(store)
        m, status = _compile_inproc(sc["sources"][ent["src"]], ent["opt"])
        if m is None:
            continue
        fresh = os.path.join(store, "FreshReference__.nslir")
        with open(fresh, "wb") as f:
            pickle.dump(m, f)
        _check_own_store(fresh)
        fresh_rel = fresh if cwd == store else os.path.join("..", "store", "FreshReference__.nslir")
        try:
            for fname in sorted(m.Functions):
                f = m.Functions[fname]
                if fname.startswith("@") or not all(t.IsScalar() for t in f.Type.Arguments.values()):
                    continue
                rng = random.Random(f"{sc.get('obs_seed', 0)}/{fname}/nslr")
                args = [str(rng.randint(0, 9)) if "int" in str(t) else str(rng.randint(0, 12) * 0.25)
                        for t in f.Type.Arguments.values()]
                tool = os.path.join(tree, "nslr.py")
                outs = []
                for target in (rel, fresh_rel):
                    code, out, err = _run_child([tool, "run", target, fname] + args, cwd, st["hs"], tree)
                    if code is None:
                        raise core.HarnessError(f"nslr.py did not finish within its time limit (step {si}, {target})")
                    lines = [l for l in (out or "").splitlines() if l.strip()]
                    if code < 0:
                        raise core.HarnessError(f"nslr.py was killed by signal {-code} (step {si}, {target})")
                    if code == 0:
                        last = lines[-1] if lines else ""
                        # the two commands differ in their MODULE argument only; two normalisations (with
                        # and without the bare stem, which may also occur inside unrelated words)
                        for tok in sorted({target, os.path.basename(target),
                                           os.path.abspath(os.path.join(cwd, target))}, key=len, reverse=True):
                            if tok:
                                last = last.replace(tok, "<MODULE>")
                        stem = os.path.splitext(os.path.basename(target))[0]
                        last2 = re.sub(r"(?<![A-Za-z0-9_])" + re.escape(stem) + r"(?![A-Za-z0-9_])", "<MODULE>", last) if stem else last
                        outs.append(["ok", last, last2])
                    else:
                        last = (err or "").strip().splitlines()[-1] if (err or "").strip() else ""
                        outs.append(["fail", last.split(":")[0].split(".")[-1]])
                bump("nslr_reads")
                log.add("nslr", name=key, fn=fname, got=outs[0])
                n += 1
                if not (outs[0] == outs[1] or (outs[0][0] == "ok" == outs[1][0]
                                                and (outs[0][1] == outs[1][1] or outs[0][2] == outs[1][2]))):
                    return (
                        "violation",
                        "nslr-differs",
                        f"step {si}: nslr.py run {rel} {fname} {args} (hash seed {st['hs']}, cwd {st['cwd']}) gives {outs[0]}, "
                        f"the same command on a freshly compiled copy of source #{ent['src']} -O{ent['opt']} gives {outs[1]}",
                        {"finding_key": "nslr-" + outs[0][0]},
                    )
                break
        finally:
            if os.path.exists(fresh):
                os.unlink(fresh)
    return None


# ------------------------------------------------------------------ shrinking


def shrink_candidates(sc):
    steps = sc["steps"]
    for keep in core.list_reductions(steps, 1):
        yield dict(sc, steps=keep)
    for i, s in enumerate(steps):
        if s.get("io"):
            c = copy.deepcopy(sc)
            c["steps"][i]["io"] = {}
            yield c
        if s.get("hs"):
            c = copy.deepcopy(sc)
            c["steps"][i]["hs"] = 0
            yield c
        if s["op"] == "read" and len(s["names"]) > 1:
            for k in range(len(s["names"])):
                c = copy.deepcopy(sc)
                del c["steps"][i]["names"][k]
                yield c
        if s["op"] == "read" and s["cwd"] != "store":
            c = copy.deepcopy(sc)
            c["steps"][i]["cwd"] = "store"
            yield c
        if s["op"] == "write" and s.get("opt"):
            c = copy.deepcopy(sc)
            c["steps"][i]["opt"] = 0
            yield c
    used = sorted({s["src"] for s in steps if "src" in s})
    if len(used) < len(sc["sources"]):
        remap = {i: k for k, i in enumerate(used)}
        c = copy.deepcopy(sc)
        c["sources"] = [sc["sources"][i] for i in used]
        for s in c["steps"]:
            if "src" in s:
                s["src"] = remap[s["src"]]
        yield c


def describe(sc):
    out = ["  --- minimised scenario ---"]
    for s in sc["steps"]:
        out.append("  step " + core.canon(s))
    for i, s in enumerate(sc["sources"]):
        out.append(f"  source #{i}:")
        out += ["    | " + l for l in s.splitlines()[:30]]
    r = execute(sc, want_texts=True)
    if r.get("verdict") == "violation":
        out.append("  " + str(r.get("detail"))[:1500])
    return "\n".join(out)


def sample_view(sc):
    return {
        "steps": sc["steps"],
        "sources": {f"#{i}": (s if len(s) < 400 else s[:400] + "...") for i, s in enumerate(sc["sources"])},
    }


# ------------------------------------------------------------------ evidence


def summarize(results):
    tot = {}
    distinct = set()
    verdicts = {}
    shapes = set()
    for r in results:
        verdicts[r.get("verdict")] = verdicts.get(r.get("verdict"), 0) + 1
        core.merge_counts(tot, r.get("stats"))
        shapes.update(r.get("shapes") or [])
        if r.get("verdict") == "ok" and r.get("nontrivial"):
            distinct.add(r.get("sc_digest"))
    return {
        "verdicts": verdicts,
        "counters": tot,
        "distinct_process_io_shapes": sorted(shapes),
        "distinct_nontrivial": len(distinct),
    }


RULE = (
    "one case = a private store + a seeded history of writes (real nslc.py child with its own PYTHONHASHSEED and a "
    "legal I/O plan - raw writes of at most c bytes, buffer sizes 16 B..64 KiB - or in-process compile+pickle.dump) "
    "and reads (reader child with another hash seed, short raw reads, cwd = store or elsewhere, module named with or "
    "without .nslir; or in-process) of 1-3 module names that are overwritten with other programs between reads, over "
    "the /verif corpus, import-using sources with their libraries, and generated programs, at both optimisation "
    "levels; every load is compared (listing incl. function order, globals, imports, metadata signatures, VM results "
    "and final globals of every exported function on 3 seeded type-correct inputs) with a fresh compilation of the "
    "reference model's entry for that name; non-trivial = at least one load compared including at least one VM "
    "invocation; distinct = distinct scenario digests"
)

ASSUMPTIONS = [
    "the reference for a stored name is a fresh compilation (in the reader itself) of the source and options of the "
    "last completed write",
    "programs that the compiler does not accept are outside the property: their writes are expected to fail and the "
    "name becomes 'unknown' in the model (not judged)",
    "only legal I/O behaviours are asserted (short reads/writes, buffer sizes); ENOSPC and killed writers are "
    "beyond-statement probes that are tallied and never judged",
    "VM inputs are 3 seeded type-correct tuples per exported function; an invocation that exceeds 300000 VM line "
    "events counts as the outcome 'StepBudget' on both sides",
    "sampling, not proof: holds for the seeds run",
]

COMPONENTS = {
    "real": [
        "nslc.py as a child process (argparse FileType output, pickle.dump, flush at interpreter shutdown)",
        "nsl.LinearIR.FilesystemModuleLoader.Load in reader child processes and in-process",
        "nsl.Compiler.Compiler, Linker, VM for the fresh reference and for behaviour",
    ],
    "stub": ["sim/boot.py I/O seam (short reads/writes, buffer sizes) around open()/Path.open() for store files",
             "sim/job17.py reader job", "reference model: map name -> last completed write"],
}
