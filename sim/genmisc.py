"""A third family of generated NSL programs for the 'programs' axis of C17 and
C18 (both compare the system with itself, so any accepted program will do):
syntactically varied sources - struct definitions drawn from a small pool of
*names* with random layouts (the same name recurs with other fields in other
programs of one history), int / uint / float scalars, vectors, arrays,
functions whose first statement is a loop, a branch, a return, nested loops,
early exits, several exported functions in varying order.

All loops terminate for every input by construction.
"""

STRUCT_NAMES = ["S", "T", "particle"]
SCALARS = ["int", "int", "float", "float", "uint"]
VECS = ["float2", "float3", "float4", "int2", "int3", "int4"]


class Gen:
    def __init__(self, rng, variant=0):
        self.r = rng
        self.n = 0
        # near-duplicate programs: with another `variant` only the layout of the first struct
        # changes (drawn from its own PRNG); every later struct - including one that nests the
        # first - and everything else is drawn from the main PRNG as before
        import random as _random

        self.vr = _random.Random(f"genmisc-variant-{variant}") if variant else None

    def fresh(self, p):
        self.n += 1
        return f"{p}{self.n}"

    def lit(self, t):
        r = self.r
        if t == "float":
            return r.choice(["0.5", "1.5", "2.25", "3.75", "0.125"])
        return str(r.randint(0, 9))

    def expr(self, t, env, depth=0):
        """Typed scalar expression over env: name -> type."""
        r = self.r
        atoms = [n for n, ty in env.items() if ty == t]
        for n, ty in env.items():
            if ty.startswith(("float", "int")) and ty[-1] in "234" and ty[:-1] == t and "x" not in ty[:-1]:
                atoms.append(f"{n}[{r.randrange(int(ty[-1]))}]")
            if ty.startswith("arr:") and ty.split(":")[1] == t:
                atoms.append(f"{n}[{r.randrange(int(ty.split(':')[2]))}]")
            if ty.startswith("struct:"):
                for fn, ft in self.structs[ty[7:]]:
                    if ft == t:
                        atoms.append(f"{n}.{fn}")
                    elif ft.startswith("struct:"):
                        for gn, gt in self.structs[ft[7:]]:
                            if gt == t:
                                atoms.append(f"{n}.{fn}.{gn}")
        if depth >= 2 or r.random() < 0.4:
            if atoms and r.random() < 0.75:
                return r.choice(atoms)
            return self.lit(t)
        op = r.choice(["+", "-", "+", "*"]) if t != "uint" else r.choice(["+", "+", "*"])
        if op == "*":
            # one factor is a small literal: values grow at most geometrically per loop
            # iteration (unbounded products make Python integers explode)
            return f"({self.expr(t, env, depth + 1)} * {self.r.choice(['0.5', '1.5', '2.5']) if t == 'float' else self.r.randint(0, 3)})"
        return f"({self.expr(t, env, depth + 1)} {op} {self.expr(t, env, depth + 1)})"

    def cond(self, env):
        r = self.r
        if r.random() < 0.08:
            return r.choice(["1", "0", "3", "1"])  # a bare literal as the condition
        t = r.choice([ty for ty in ("int", "float") if any(v == ty for v in env.values())] or ["int"])
        c = f"({self.expr(t, env, 1)} {r.choice(['<', '>', '<=', '>=', '==', '!='])} {self.expr(t, env, 1)})"
        if r.random() < 0.2:
            c = f"({c} {r.choice(['&&', '||'])} ({self.expr('int', env, 2)} < {r.randint(0, 9)}))"
        return c

    def lvalues(self, env):
        out = []
        for n, ty in env.items():
            if n in self.readonly:
                continue
            if ty in ("int", "float", "uint"):
                out.append((n, ty))
            elif ty.startswith("arr:"):
                out.append((f"{n}[{self.r.randrange(int(ty.split(':')[2]))}]", ty.split(":")[1]))
            elif ty.startswith("struct:"):
                for fn, ft in self.structs[ty[7:]]:
                    if ft in ("int", "float", "uint"):
                        out.append((f"{n}.{fn}", ft))
                    elif ft.startswith("struct:"):
                        for gn, gt in self.structs[ft[7:]]:
                            if gt in ("int", "float", "uint"):
                                out.append((f"{n}.{fn}.{gn}", gt))
            elif ty[-1] in "234" and ty[:-1] in ("int", "float"):
                out.append((f"{n}[{self.r.randrange(int(ty[-1]))}]", ty[:-1]))
        return out

    def stmt(self, env, ind, depth, in_loop, kind=None):
        r = self.r
        p = "  " * ind
        kind = kind or r.choice(["assign", "assign", "assign", "decl", "decl", "if", "for", "while", "do", "ret", "brk",
                                 "vzoo", "vzoo"])
        if kind == "vzoo":
            z = self.vzoo(env, p)
            if z:
                return z
            kind = "decl"
        if kind == "assign":
            lv = self.lvalues(env)
            if not lv:
                kind = "decl"
            else:
                n, t = r.choice(lv)
                op = r.choice(["=", "=", "=", "+=", "-=", "*="]) if t != "uint" else "="
                if op == "*=":
                    return p + f"{n} *= {self.lit(t) if t == 'float' else r.randint(0, 3)};\n"
                return p + f"{n} {op} {self.expr(t, env)};\n"
        if kind == "decl":
            c = r.random()
            nm = self.fresh("v")
            if c < 0.6:
                t = r.choice(SCALARS)
                init = f" = {self.expr(t, env)}" if r.random() < 0.7 else ""
                env[nm] = t
                return p + f"{t} {nm}{init};\n"
            if c < 0.75:
                t = r.choice(["int", "float"])
                k = r.randint(2, 4)
                env[nm] = f"arr:{t}:{k}"
                return p + f"{t}[{k}] {nm};\n"
            if c < 0.9 and self.structs:
                sn = r.choice(sorted(self.structs))
                env[nm] = "struct:" + sn
                return p + f"{sn} {nm};\n"
            t = r.choice(VECS)
            base = t[:-1]
            init = ", ".join(self.expr(base, env, 1) for _ in range(int(t[-1])))
            env[nm] = t
            return p + f"{t} {nm} = {t}({init});\n"
        if kind == "if" and depth < 2:
            s = p + f"if ({self.cond(env)}) {{\n" + self.block(dict(env), ind + 1, depth + 1, in_loop) + p + "}"
            if r.random() < 0.4:
                s += " else {\n" + self.block(dict(env), ind + 1, depth + 1, in_loop) + p + "}"
            return s + "\n"
        if kind == "for" and depth < 2:
            k = self.fresh("i")
            e2 = dict(env)
            e2[k] = "int"
            self.readonly.add(k)
            return (p + f"for (int {k} = 0; {k} < {r.randint(1, 4)}; ++{k}) {{\n" + self.block(e2, ind + 1, depth + 1, True)
                    + p + "}\n")
        if kind == "while" and depth < 2 and r.random() < 0.2:
            # `while (1)` left through a counted break
            c = self.fresh("c")
            e2 = dict(env)
            e2[c] = "int"
            self.readonly.add(c)
            body = (p + "  " + f"{c} = ({c} + 1);\n" + p + "  " + f"if (({c} > {r.randint(1, 4)})) {{\n{p}    break;\n{p}  }}\n"
                    + self.block(e2, ind + 1, depth + 1, False))
            return p + f"int {c} = 0;\n" + p + "while (1) {\n" + body + p + "}\n"
        if kind in ("while", "do") and depth < 2:
            cs = [n for n, ty in env.items() if ty == "int" and n not in self.readonly]
            if not cs:
                return self.stmt(env, ind, depth, in_loop, "decl")
            c = r.choice(cs)
            self.readonly.add(c)
            bound = r.randint(1, 6)
            body = p + "  " + f"{c} = ({c} + 1);\n" + self.block(dict(env), ind + 1, depth + 1, kind == "while")
            self.readonly.discard(c)
            if kind == "while":
                return p + f"while (({c} < {bound})) {{\n" + body + p + "}\n"
            return p + "do {\n" + body + p + f"}} while (({c} < {bound}))\n"
        if kind == "ret" and self.ret != "void" and depth > 0:
            return p + f"if ({self.cond(env)}) {{\n{p}  return {self.expr(self.ret, env)};\n{p}}}\n"
        if kind == "brk" and in_loop:
            dead = ""
            if r.random() < 0.25 and self.lvalues(env):
                n_, t_ = r.choice(self.lvalues(env))
                dead = f"{p}  {n_} = {self.expr(t_, env, 1)};\n"  # never executed: follows the jump in the same block
            return p + f"if ({self.cond(env)}) {{\n{p}  {r.choice(['break', 'continue'])};\n{dead}{p}}}\n"
        return self.stmt(env, ind, depth, in_loop, "assign" if self.lvalues(env) else "decl")

    def vzoo(self, env, p):
        """Vector / matrix / swizzle / cast statements (shuffles, vector and matrix
        arithmetic, implicit conversions)."""
        r = self.r
        fv = [(n, int(t[-1])) for n, t in env.items() if t in ("float2", "float3", "float4")]
        iv = [(n, int(t[-1])) for n, t in env.items() if t in ("int2", "int3", "int4")]
        mats = [n for n, t in env.items() if t == "float4x4"]
        k = r.randrange(9)
        nm = self.fresh("z")
        comps = "xyzw"
        if k == 0 and fv:
            n, sz = r.choice(fv)
            m = r.randint(2, sz)
            sw = "".join(r.choice(comps[:sz]) for _ in range(m))
            env[nm] = f"float{m}"
            return p + f"float{m} {nm} = {n}.{sw};\n"
        if k == 1 and fv:
            n, sz = r.choice(fv)
            if n in self.readonly or sz < 2:
                return None
            a, b = r.sample(range(sz), 2)
            return p + f"{n}.{comps[a]}{comps[b]} = float2({self.expr('float', env, 1)}, {self.expr('float', env, 1)});\n"
        if k == 2 and len([x for x in fv if x[1] == fv[0][1]]) >= 1:
            n, sz = r.choice(fv)
            same = [x for x, s2 in fv if s2 == sz]
            env[nm] = f"float{sz}"
            return p + f"float{sz} {nm} = (({n} {r.choice('+-')} {r.choice(same)}) * {r.choice(['0.5', '1.5', '2.0'])});\n"
        if k == 3 and iv:
            n, sz = r.choice(iv)
            env[nm] = f"int{sz}"
            return p + f"int{sz} {nm} = ({n} * {r.randint(0, 3)});\n"
        if k == 4 and mats:
            m = r.choice(mats)
            env[nm] = "float4x4"
            rhs = f"({m} * {r.choice(mats)})" if r.random() < 0.5 else f"({m} * {r.choice(['0.5', '2.0'])})"
            return p + f"float4x4 {nm} = {rhs};\n"
        if k == 5 and mats:
            m = r.choice(mats)
            env[nm] = "float"
            return p + f"float {nm} = {m}[{r.randrange(4)}][{r.randrange(4)}];\n"
        if k == 6 and mats:
            m = r.choice(mats)
            if m in self.readonly:
                return None
            return p + f"{m}[{r.randrange(4)}][{r.randrange(4)}] = {self.expr('float', env, 1)};\n"
        if k == 7:
            env[nm] = "float"
            return p + f"float {nm} = {self.expr('int', env, 1)};\n"  # implicit int -> float
        if k == 8:
            env[nm] = "float"
            return p + f"float {nm} = ({self.expr('int', env, 1)} + {self.expr('float', env, 1)});\n"
        return None

    def block(self, env, ind, depth, in_loop, n=None):
        return "".join(self.stmt(env, ind, depth, in_loop) for _ in range(n or self.r.randint(1, 3)))

    def program(self):
        r = self.r
        self.structs = {}
        out = []
        used_fields = set()
        for si, sn in enumerate(r.sample(STRUCT_NAMES, r.choice([0, 1, 1, 2, 2, 2]))):
            fields = []
            # the main PRNG is always advanced the same way; a variant overrides the first struct
            drawn = [(r.choice("abcdexyzwuvmnpq") + r.choice(["", "0", "1", "_"]),
                      r.choice(["int", "float", "float", "uint", "float3", "int2"])) for _ in range(r.randint(1, 4))]
            if si == 0 and self.vr is not None:
                vr = self.vr
                drawn = [(vr.choice("fghijkrst") + vr.choice(["", "2", "3"]), vr.choice(["int", "float", "uint", "int2"]))
                         for _ in range(vr.randint(1, 4))]
            for fn, ft in drawn:
                if fn in used_fields:
                    continue
                used_fields.add(fn)
                fields.append((fn, ft))
            if fields and self.structs and r.random() < 0.5:
                # a field of an earlier struct type (nested layout)
                inner = r.choice(sorted(self.structs))
                fn = "in" + str(len(self.structs))
                fields.insert(r.randrange(len(fields) + 1), (fn, "struct:" + inner))
            if fields:
                self.structs[sn] = fields
                out.append(f"struct {sn} {{ " + " ".join(f"{t[7:] if t.startswith('struct:') else t} {n};" for n, t in fields)
                           + " }\n")
        genv = {}
        for sn in sorted(self.structs):
            if r.random() < 0.6:  # every struct type is usually used by at least one variable
                gn = self.fresh("g")
                genv[gn] = "struct:" + sn
                out.append(f"{sn} {gn};\n")
        for _ in range(r.choice([0, 1, 2, 3])):
            gn = self.fresh("g")
            c = r.random()
            if c < 0.5:
                t = r.choice(SCALARS)
                genv[gn] = t
                out.append(f"{t} {gn};\n")
            elif c < 0.7:
                t, k = r.choice(["int", "float"]), r.randint(2, 4)
                genv[gn] = f"arr:{t}:{k}"
                out.append(f"{t}[{k}] {gn};\n")
            elif c < 0.85 and self.structs:
                sn = r.choice(sorted(self.structs))
                genv[gn] = "struct:" + sn
                out.append(f"{sn} {gn};\n")
            else:
                t = r.choice(VECS)
                genv[gn] = t
                out.append(f"{t} {gn};\n")
        wide = None
        if r.random() < 0.2:
            # a non-exported helper with a long parameter list (long mangled name)
            t = r.choice(["float", "int"])
            n = r.randint(9, 14)
            wide = ("wide", t, n)
            ps = ", ".join(f"{t} a{k}" for k in range(n))
            out.append(f"function wide({ps}) -> {t} {{\n  return ((a0 + a{n - 1}) + a{n // 2});\n}}\n")
        self.wide = wide
        if r.random() < 0.1:
            out.append(f"export function noop{r.randint(0, 9)}() -> void {{\n}}\n")  # a function with an empty body
        if r.random() < 0.06:
            # recursion far deeper than the interpreter allows: ends in the same RecursionError in
            # every process of the unchanged tree (the margin to the ~495-level limit is large)
            out.append("function rec(int n) -> int {\n  if ((n <= 0)) {\n    return 0;\n  }\n  return (n + rec((n - 1)));\n}\n")
            out.append(f"export function deep{r.randint(0, 9)}() -> int {{\n  return rec({r.choice([700, 900, 1500])});\n}}\n")
        names = r.sample(["main", "shade", "f", "g_", "eval", "kernel", "step", "blend", "k2", "Fn"], r.randint(1, 5))
        size = r.random()
        if size < 0.04:
            # size as a dimension: many small functions ...
            names = names + [f"fn{k}" for k in range(r.randint(30, 60))]
        long_fn = names[0] if 0.04 <= size < 0.09 else None  # ... or one long straight-line function
        for fname in names:
            self.readonly = set()
            params = []
            env = dict(genv)
            for _ in range(r.randint(0, 3)):
                pn = self.fresh("p")
                t = r.choice(SCALARS + ["float4", "int3", "float3", "float2", "float4x4"])
                params.append(f"{t} {pn}")
                env[pn] = t
            self.ret = r.choice(["int", "float", "uint", "void", "int", "float"])
            first = r.choice(["while", "do", "for", "if", "decl", "assign", "decl"])
            body = self.stmt(env, 1, 0, False, first) + self.block(env, 1, 0, False, r.randint(0, 4))
            if fname == long_fn:
                # stays well below the ~200 sequential branches at which the unchanged tree can no
                # longer pickle a module (known finding C17-D5)
                for _ in range(r.randint(40, 80)):
                    body += self.stmt(env, 1, 1, False, r.choice(["assign", "assign", "if", "decl"]))
            if self.wide and r.random() < 0.6:
                _w, wt, wn = self.wide
                body += f"  {wt} {self.fresh('w')} = wide(" + ", ".join(self.expr(wt, env, 2) for _ in range(wn)) + ");\n"
            if self.ret != "void":
                body += f"  return {self.expr(self.ret, env)};\n"
            out.append(f"export function {fname}({', '.join(params)}) -> {self.ret} {{\n{body}}}\n")
        return "".join(out)


def gen_source(rng, variant=0):
    return Gen(rng, variant).program()
