"""Command-line driver shared by all properties: search, shrink, replay,
known findings, evidence, exit codes.

exit 0  property held on everything explored (KNOWN-FINDING lines allowed)
exit 1  VIOLATION property=<id> replay=<path>
exit 2  HARNESS-ERROR (never silently 0, never a VIOLATION)
"""
import argparse
import importlib
import json
import os
import sys
import time

from . import core, repo

MODULES = {"C15": "sim.c15", "C16": "sim.c16", "C17": "sim.c17", "C18": "sim.c18"}

DEFAULTS = {
    # property: (quick runs, thorough budget seconds, chunk)
    "C15": (4000, 600, 25),
    "C16": (2400, 600, 20),
    "C17": (288, 600, 2),
    "C18": (112, 600, 1),
}


def same_failure_as(ref):
    def f(res):
        return (
            res.get("verdict") == "violation"
            and res.get("oracle") == ref.get("oracle")
            and res.get("finding_key") == ref.get("finding_key")
        )

    return f


def replay(prop, path):
    mod = importlib.import_module(MODULES[prop])
    with open(path) as f:
        doc = json.load(f)
    env = repo.setup()
    mod.worker_init(env)
    sc = doc["scenario"]
    res = core.run_pristine(mod, sc)
    print(f"replay {path}: verdict={res.get('verdict')} oracle={res.get('oracle')} digest={res.get('digest')}")
    print(f"  detail: {res.get('detail')}")
    if doc.get("event_digest"):
        print(
            "  event log digest "
            + ("matches the recorded one" if doc["event_digest"] == res.get("digest") else "DIFFERS from the recorded one")
        )
    if res.get("verdict") == "violation":
        findings = core.load_known_findings()
        kf = core.match_known(prop, res, findings)
        if kf:
            print(f"KNOWN-FINDING: property={prop} {kf['what']}")
            return 0
        print(f"VIOLATION property={prop} replay={path}")
        return 1
    if res.get("verdict") in ("harness-error", "timeout"):
        print(f"HARNESS-ERROR property={prop} {res.get('verdict')}: {res.get('detail')}")
        return 2
    return 0


def main(argv=None):
    ap = argparse.ArgumentParser(prog="check")
    ap.add_argument("prop")
    ap.add_argument("--tier", default=os.environ.get("VERIF_TIER", "quick"), choices=["quick", "thorough"])
    ap.add_argument("--runs", type=int, default=None)
    ap.add_argument("--budget", type=float, default=None, help="seconds (thorough tier)")
    ap.add_argument("--replay", default=None)
    ap.add_argument("--workers", type=int, default=None)
    ap.add_argument("--first", type=int, default=0)
    ap.add_argument("--no-shrink", action="store_true")
    ap.add_argument("--no-evidence", action="store_true")
    ap.add_argument("--keep-going", action="store_true", help="do not stop the search at the first violation")
    args = ap.parse_args(argv)

    if args.prop == "selftest":
        from . import selftest

        return selftest.main(args)
    prop = args.prop.upper()
    if prop not in MODULES:
        print(f"unknown property {prop}; claimed: {sorted(MODULES)}")
        return 2
    if args.replay:
        try:
            return replay(prop, args.replay)
        except BaseException as e:
            if isinstance(e, (KeyboardInterrupt, SystemExit)):
                raise
            print(f"HARNESS-ERROR property={prop} replay failed: {type(e).__name__}: {e}")
            return 2
        finally:
            core.cleanup_scratch()

    base_seed = int(os.environ.get("VERIF_SEED", "0"))
    print(f"nslsim property={prop} tier={args.tier} VERIF_SEED={base_seed}")
    t0 = time.monotonic()
    try:
        return _run(prop, args, base_seed, t0)
    except core.HarnessError as e:
        print(f"HARNESS-ERROR property={prop} {e}")
        return 2
    except BaseException as e:  # the harness could not cope (e.g. an API it drives has changed): never exit 1
        if isinstance(e, (KeyboardInterrupt, SystemExit)):
            raise
        import traceback

        print(f"HARNESS-ERROR property={prop} unexpected {type(e).__name__}: {e}")
        traceback.print_exc()
        return 2
    finally:
        core.cleanup_scratch()


def _run(prop, args, base_seed, t0):
    mod = importlib.import_module(MODULES[prop])
    qruns, tbudget, chunk = DEFAULTS[prop]
    env = repo.setup()
    if hasattr(mod, "prepare"):
        env = mod.prepare(env, args.tier, base_seed)
    mod.worker_init(env)  # the parent re-executes violations (confirm, shrink) in pristine forked children
    if "nsl" in sys.modules:
        core.api_smoke()
    n_runs = args.runs
    budget = args.budget
    if args.tier == "quick":
        if n_runs is None and budget is None:
            n_runs = qruns
    else:
        if n_runs is None and budget is None:
            budget = float(os.environ.get("VERIF_BUDGET_S", tbudget))
    chunk = int(os.environ.get("NSLSIM_CHUNK", chunk))
    s = core.Search(mod, args.tier, base_seed, env, workers=args.workers)
    results = s.run(
        n_runs=n_runs,
        budget_s=budget,
        chunk=chunk,
        stop_on_violation=not args.keep_going,
        first_index=args.first,
    )
    findings = core.load_known_findings()
    # witnesses of recorded findings are re-executed on every run: a repaired
    # defect that returns is reported again (a "fixed" entry suppresses nothing)
    n_witness = 0
    for k, f in enumerate(findings):
        wp = f.get("witness_replay")
        if f.get("property") != prop or not wp or args.first != 0:
            continue
        wp = os.path.join(core.VERIF, wp)
        if not os.path.exists(wp):
            continue
        with open(wp) as fh:
            wdoc = json.load(fh)
        res = core.run_pristine(mod, wdoc["scenario"])
        res.update(i=-(k + 1), seed=wdoc.get("seed", 0), sc_digest=core.digest(wdoc["scenario"]), witness_of=f.get("id"))
        if res.get("verdict") not in ("ok", "discard"):
            res["scenario"] = wdoc["scenario"]
        results.insert(0, res)
        n_witness += 1
    if os.environ.get("NSLSIM_DUMP_DIGESTS"):
        with open(os.environ["NSLSIM_DUMP_DIGESTS"], "w") as f:
            json.dump({str(r["i"]): [r.get("verdict"), r.get("oracle"), r.get("digest")] for r in results}, f)
    if os.environ.get("NSLSIM_DUMP_RESULTS"):
        with open(os.environ["NSLSIM_DUMP_RESULTS"], "w") as f:
            json.dump([{k: r.get(k) for k in ("i", "seed", "verdict", "oracle", "finding_key", "detail")} for r in results], f)
    harness = [r for r in results if r.get("verdict") in ("harness-error", "timeout")]
    viols = [r for r in results if r.get("verdict") == "violation"]
    known_hits = {}
    unknown = []
    for r in viols:
        kf = core.match_known(prop, r, findings)
        if kf:
            known_hits.setdefault(kf["id"], [kf, 0])[1] += 1
        else:
            unknown.append(r)
    exit_code = 0
    replay_paths = []
    if unknown:
        # one report per distinct failure class (oracle, finding key), at most 4
        groups = {}
        for r in unknown:
            groups.setdefault((r.get("oracle"), r.get("finding_key")), []).append(r)
        for (orc, fk), rs in list(groups.items())[:4]:
            # a member that was itself re-executed alone (not merely one of an already confirmed class)
            first = next((r for r in rs if not str(r.get("confirmed", "")).startswith("skipped")), rs[0])
            sc = first["scenario"]
            shrunk, evals = sc, 0
            if not args.no_shrink:
                shrunk, evals = core.shrink(mod, sc, same_failure_as(first))
            final = core.run_pristine(mod, shrunk)
            if final.get("verdict") != "violation":
                final, shrunk = first, sc
            path = core.write_replay(
                prop,
                first["seed"],
                shrunk,
                final,
                {"run_index": first["i"], "base_seed": base_seed, "shrink_evaluations": evals,
                 "original_scenario_digest": first.get("sc_digest"), "runs_with_this_failure_class": len(rs)},
            )
            replay_paths.append(path)
            print(f"  oracle={final.get('oracle')} finding_key={final.get('finding_key')} detail={final.get('detail')}")
            print(f"  seed={first['seed']} run_index={first['i']} shrink_evaluations={evals} runs_in_class={len(rs)}")
            if hasattr(mod, "describe"):
                if shrunk.get("kind") == "sequence":
                    print(f"  (fails only after {len(shrunk['scenarios']) - 1} earlier scenario(s) in the same process; "
                          "the last scenario of the sequence is shown)")
                    print(mod.describe(shrunk["scenarios"][-1]))
                else:
                    print(mod.describe(shrunk))
            print(f"VIOLATION property={prop} replay={path}")
        exit_code = 1
    for kid, (kf, n) in sorted(known_hits.items()):
        print(f"KNOWN-FINDING: property={prop} {kf['what']} [{kid}; hit by {n} runs]")
    if hasattr(mod, "static_known_findings"):
        # known findings whose witness is a fixed input: re-executed on every run
        for line, code in mod.static_known_findings(env, findings):
            print(line)
            exit_code = max(exit_code, code)
    wall = time.monotonic() - t0
    summ = mod.summarize(results)
    evaluated = sum(1 for r in results if r.get("verdict") in ("ok", "violation"))
    discards = sum(1 for r in results if r.get("verdict") == "discard")
    if harness and exit_code == 0:
        h = harness[0]
        print(f"HARNESS-ERROR property={prop} {len(harness)} runs: {h.get('verdict')}: {str(h.get('detail'))[-600:]}")
        exit_code = 2
    if exit_code == 0 and (evaluated == 0 or discards > len(results) // 2):
        print(
            f"HARNESS-ERROR property={prop} only {evaluated} of {len(results)} runs could be evaluated "
            f"({discards} discarded) - the check cannot exercise the property on this tree"
        )
        reasons = {}
        for r in results:
            if r.get("verdict") == "discard":
                reasons[r.get("oracle")] = reasons.get(r.get("oracle"), 0) + 1
        print("  discard reasons:", reasons)
        exit_code = 2
    if not args.no_evidence:
        samples = [r["scenario"] for r in results if "scenario" in r and r.get("verdict") == "ok"][:2]
        if hasattr(mod, "sample_view"):
            samples = [mod.sample_view(x) for x in samples]
        cov = {
            "evaluations": len(results),
            "distinct_nontrivial": summ.pop("distinct_nontrivial"),
            "rule": mod.RULE,
            "samples": samples or [r.get("scenario") for r in results[:1]],
            "runs_per_hour": int(len(results) / max(wall, 1e-6) * 3600),
            "seeds": {"VERIF_SEED": base_seed, "first_run_index": args.first, "runs": len(results),
                      "derivation": "seed_i = SHA-256('run', property, VERIF_SEED, i)"},
            "workers": s.workers,
            "discarded_runs": discards,
            "known_finding_hits": {k: v[1] for k, v in known_hits.items()},
            "finding_witnesses_reexecuted": n_witness,
            "components": mod.COMPONENTS,
            "simulated_time": "logical only (no code under test reads a clock): see counters",
        }
        cov.update(summ)
        core.write_evidence(prop, args.tier, base_seed, cov, wall, len(unknown), mod.ASSUMPTIONS)
    print(
        f"{prop}: {len(results)} runs ({evaluated} evaluated, {discards} discarded, {len(harness)} harness errors, "
        f"{len(viols)} violating of which {len(viols) - len(unknown)} known) in {wall:.1f}s -> exit {exit_code}"
    )
    return exit_code


if __name__ == "__main__":
    sys.exit(main())
