"""C18 - compilation is deterministic and independent of earlier compilations.

World: 2-6 simulated OS processes per run, started one at a time as real child
interpreters, each with its own PYTHONHASHSEED, its own private copy of the
working tree (so that PLY's on-disk parser-table cache is a per-process
simulated resource: valid / absent / stale / unwritable), its own cwd, and a
history of 5-40 compilations (fresh Compiler() each) over a corpus that
deliberately includes sources that are rejected, raise inside a pass, or make
the parser call sys.exit.  Oracle: a history check over all recorded
observations - every observation of one (source, options) key must be equal,
whatever the process, hash seed, cache state, cwd, position and predecessors.
"""
import copy
import hashlib
import json
import os
import shutil
import subprocess
import sys

from . import core, repo

ID = "C18"

_env = None
CORPUS_DIR = os.path.join(core.VERIF, "corpus")
JOB = os.path.join(core.VERIF, "sim", "job18.py")

OPTSETS = [
    {"optimize": False, "wasm": False},
    {"optimize": True, "wasm": False},
    {"optimize": False, "wasm": True},
    {"optimize": True, "wasm": True},
]


def worker_init(env):
    global _env
    if _env is not None:
        return
    _env = env


def timeout_s(sc):
    return 60.0 + 40.0 * len(sc.get("procs", []))


# ------------------------------------------------------------------ generation

_corpus_cache = None


def corpus():
    global _corpus_cache
    if _corpus_cache is None:
        out = []
        for fn in sorted(os.listdir(CORPUS_DIR)):
            p = os.path.join(CORPUS_DIR, fn)
            if fn.endswith(".nsl") and os.path.isfile(p):
                with open(p, encoding="utf-8") as f:
                    out.append((fn[:-4], f.read()))
        libs = {}
        for ver, d in (("0", "libs"), ("1", "libs_v1")):
            libs[ver] = []
            for name in ("libA", "libB", "libC"):
                with open(os.path.join(CORPUS_DIR, d, name + ".nsl")) as f:
                    libs[ver].append([name, f.read()])
        _corpus_cache = (out, libs)
    return _corpus_cache


_extra_cache = None


def corpus_extra():
    """Import-using sources for C18 only (C17 keeps a flat store): programs that every fresh
    process rejects in the same way (an ambiguous call through two libraries, an import that
    exists only in a sub-directory another source imports from), with their libraries; a
    library file `sub__libS.nsl` is the module "sub/libS"."""
    global _extra_cache
    if _extra_cache is None:
        files, libs = [], []
        d = os.path.join(CORPUS_DIR, "c18only")
        for fn in sorted(os.listdir(d)):
            with open(os.path.join(d, fn), encoding="utf-8") as f:
                files.append((fn[:-4], f.read()))
        d = os.path.join(CORPUS_DIR, "libs_extra")
        for fn in sorted(os.listdir(d)):
            with open(os.path.join(d, fn), encoding="utf-8") as f:
                libs.append([fn[:-4].replace("__", "/"), f.read()])
        _extra_cache = (files, libs)
    return _extra_cache


def _generated_source(rng):
    """Programs from the C15 / C16 generators (more shapes than the corpus)."""
    from . import gen15, gen16, genmisc, lang

    c = rng.random()
    if c < 0.5:
        return genmisc.gen_source(rng)
    if c < 0.75:
        sw = gen15.draw_swarm(rng)
        prog = gen15.ProgGen(rng, sw).program()
        return lang.program_src(prog)
    sc = gen16.gen_scenario(rng.getrandbits(60))
    return gen16.single_src(sc)


def generate(seed, tier):
    rng = core.sub_rng(seed, "c18.sched")
    srng = core.sub_rng(seed, "c18.sources")
    files, libs = corpus()
    xfiles, xlibs = corpus_extra()
    libs = {v: list(l) + xlibs for v, l in libs.items()}
    with_imports = rng.random() < 0.7
    pool = []
    for name, src in list(files) + xfiles:
        if "import " in src and not with_imports:
            continue
        pool.append(src)
    n_gen = rng.choice([0, 2, 4, 8, 12])
    n_corpus = len(pool)
    twins = []
    for _ in range(n_gen):
        pool.append(_generated_source(srng))
        if srng.random() < 0.3:
            # a near-duplicate pair: the same program with another layout of its first struct
            import random as _random
            from . import genmisc

            st = srng.getrandbits(64)
            pool[-1] = genmisc.gen_source(_random.Random(st), 0)
            twin = genmisc.gen_source(_random.Random(st), 1)
            if twin != pool[-1]:
                pool.append(twin)
                twins.append((len(pool) - 2, len(pool) - 1))
    # focus keys recur across processes and positions; half of them are generated
    # programs (which share struct / function / global names among each other)
    n_focus = rng.randint(3, 8)
    focus = [((rng.randrange(n_corpus, len(pool)) if (n_gen and rng.random() < 0.5) else rng.randrange(len(pool))),
              rng.randrange(4)) for _ in range(n_focus)]
    # the same source under other options (a result cached per source, ignoring the
    # options, shows only when both keys occur in both orders)
    for i, o in list(focus[: rng.randint(1, 3)]):
        focus.append((i, (o + rng.randint(1, 3)) % 4))
    # name-collision clusters: sources that define a struct / global / function of the
    # same name (state keyed by a *name* that survives a compilation shows only when
    # two such sources meet in one process, in both orders)
    import re

    by_name = {}
    for i, src in enumerate(pool):
        for nm in set(re.findall(r"struct\s+(\w+)\s*\{", src)):
            by_name.setdefault("struct " + nm, []).append(i)
    # sources that use a rarely used language feature together with the sources whose meaning
    # would change if that feature leaked (optional arguments <-> overloads that differ in arity)
    opt_users = [i for i, src in enumerate(pool) if "__optional" in src]
    arity = [i for i, src in enumerate(pool)
             if any(src.count(f"function {nm}(") >= 2 for nm in set(re.findall(r"function\s+(\w+)\s*\(", src)))]
    feature = None
    if opt_users and arity:
        feature = [rng.choice(opt_users)] + rng.sample(arity, min(len(arity), 3))
    clusters = [v for k, v in sorted(by_name.items()) if len(v) >= 2]
    chosen = []
    if twins and rng.random() < 0.5:
        chosen.append(list(rng.choice(twins)))
    if clusters and rng.random() < 0.6:
        chosen.append(rng.choice(clusters))
    if feature and rng.random() < 0.25:
        chosen.append(feature)
    ordered = []
    for cl in chosen:
        o = rng.randrange(4)
        items = [(i, o) for i in (cl if cl is feature else rng.sample(cl, min(len(cl), rng.randint(2, 4))))]
        focus = items + focus
        ordered.append(items)
    if with_imports:
        imps = [i for i, s in enumerate(pool) if "import " in s]
        focus += [(rng.choice(imps), rng.randrange(2)) for _ in range(2)]
    relib = rng.random() < 0.65
    heavy = [i for i, src in enumerate(pool) if len(src) > 4000] if rng.random() < 0.35 else []
    nproc = rng.randint(2, 5 if tier == "quick" else 6)
    procs = []
    used = set()
    for k in range(nproc):
        n = rng.choice([5, 10, 20, 40]) if tier != "quick" else rng.choice([5, 10, 20, 30])
        hist = []
        for _ in range(n):
            c = rng.random()
            if c < 0.45:
                i, o = rng.choice(focus)
            else:
                i, o = rng.randrange(len(pool)), rng.randrange(4)
            opts = dict(OPTSETS[o])
            if rng.random() < 0.05:
                opts["debug-passes"] = True
            hist.append([i, opts])
            used.add(i)
        if rng.random() < 0.5:
            # the same job twice in a row, and again at the very end
            i, o = rng.choice(focus)
            pos = rng.randrange(len(hist))
            hist[pos:pos] = [[i, dict(OPTSETS[o])], [i, dict(OPTSETS[o])]]
            hist.append([i, dict(OPTSETS[o])])
            used.add(i)
        libver = 0
        if with_imports and relib:
            # the store's library modules are an input too: some processes start with
            # version 1, some rebuild the libraries in the middle of their history
            libver = rng.randrange(2)
            v = libver
            imp_focus = [f for f in focus if "import " in pool[f[0]]]
            for _ in range(rng.randint(0, 2)):
                v = 1 - v
                pos = rng.randrange(len(hist) + 1)
                step = [[-1, {"relib": v}]]
                if imp_focus and rng.random() < 0.7:
                    # an importing source right before and right after the libraries change
                    i, o = rng.choice(imp_focus)
                    step = [[i, dict(OPTSETS[o])]] + step + [[i, dict(OPTSETS[o])]]
                    used.add(i)
                hist[pos:pos] = step
        if heavy and rng.random() < 0.5:
            # big optimised compilations early in the process (whatever accumulates per process -
            # counters, pools, caps - is far along when the focus keys are compiled)
            n_pre = rng.randint(12, 24) if rng.random() < 0.3 else rng.randint(2, 4)  # sometimes a marathon
            pre = [[rng.choice(heavy), dict(OPTSETS[rng.choice([1, 1, 3])])] for _ in range(n_pre)]
            hist[0:0] = pre
            used.update(i for i, _o in pre)
        precreate = 0
        if with_imports and relib and rng.random() < 0.25:
            # compilers constructed up front, then the process moves to another directory with
            # its own (other) build of the libraries
            precreate = rng.randint(2, 6)
            pos = rng.randrange(min(3, len(hist)) + 1)
            hist.insert(pos, [-1, {"chdir": "../other_store", "relib": 1 - libver}])
        optobjs = []
        if rng.random() < 0.45:
            # the host keeps one options dictionary, changes a key for the next target and passes
            # the very same object again; keys it never set are absent
            optobjs = [rng.choice([{}, {"wasm": True}, {"wasm": True}, {"optimize": True}, {"wasm": False}])
                       for _ in range(rng.randint(1, 2))]
            for j in range(len(hist)):
                if hist[j][0] >= 0 and "debug-passes" not in hist[j][1] and rng.random() < 0.5:
                    kobj = rng.randrange(len(optobjs))
                    change = rng.choice([{}, {"wasm": True}, {"wasm": False}, {"wasm": True}, {"wasm": False},
                                         {"optimize": True}, {"optimize": False}])
                    hist[j] = [hist[j][0], {"$obj": kobj, "$set": change}]
        cache = rng.choice(["valid", "valid", "absent", "stale", "unwritable"])
        if rng.random() < 0.04:
            cache = "torn"  # probe P4 (beyond the statement): never judged
        procs.append(
            {
                "hs": rng.choice([0, 1, rng.randint(0, 2 ** 32 - 1), rng.randint(0, 2 ** 32 - 1)]),
                "cache": cache,
                "cwd": rng.choice(["w0", "w1"]),
                "libver": libver,
                "history": hist,
                "precreate": precreate,
                "optobjs": optobjs,
                # asserts stripped (python -O): judged only for sources that are accepted with asserts on
                "pyopt": rng.random() < 0.12,
                # simulated clock: seconds that pass per reading of any clock in this process
                "clock_step": rng.choice([None, 0.000001, 0.01, 0.7, 30.0]),
                # environment variables nobody thinks about
                "envnoise": rng.choice([{}, {}, {"COLUMNS": "40", "LINES": "10"}, {"COLUMNS": "200"}, {"TERM": "dumb", "TZ": "Asia/Tokyo"},
                                        {"LC_ALL": "C", "COLUMNS": "72"}, {"NO_COLOR": "1", "TERM": "xterm-256color"}]),
            }
        )
    # what a reused options dictionary holds when it is passed is also compiled from a brand-new
    # dictionary with exactly those keys, in another process
    for pidx, pr_ in enumerate(list(procs)):
        state = [dict(x) for x in pr_.get("optobjs", [])]
        twins_ = []
        for i, o in pr_["history"]:
            if i >= 0 and "$obj" in o:
                state[o["$obj"]].update(o.get("$set", {}))
                twins_.append([i, {"$literal_fresh": dict(state[o["$obj"]])}])
        for job in rng.sample(twins_, min(3, len(twins_))):
            q = rng.choice([x for x in range(len(procs)) if x != pidx] or [pidx])
            procs[q]["history"].insert(rng.randrange(len(procs[q]["history"]) + 1), job)
    # the members of a cluster meet in both orders: as written in one process, reversed in another
    for items in ordered:
        if len(procs) >= 2:
            a, b = rng.sample(range(len(procs)), 2)
            for pidx, seq in ((a, items), (b, list(reversed(items)))):
                pos = rng.randrange(min(4, len(procs[pidx]["history"])) + 1)
                procs[pidx]["history"][pos:pos] = [[i, dict(OPTSETS[o])] for i, o in seq]
                used.update(i for i, _o in seq)
    # keep only the sources that are used; re-index
    idx = sorted(used)
    remap = {i: k for k, i in enumerate(idx)}
    for p in procs:
        p["history"] = [[remap[i] if i >= 0 else -1, o] for i, o in p["history"]]
    return {
        "kind": "c18",
        "seed": seed,
        "sources": [pool[i] for i in idx],
        "libs": libs if with_imports else {},
        "procs": procs,
    }


# ------------------------------------------------------------------ execution


def _prepare_tree(dest, cache):
    """Private copy of the working tree for one simulated process, with the
    parser-table cache in the requested state."""
    repo.clone_tree(_env["tree"], dest, with_table=cache in ("valid", "stale", "torn"))
    tab = os.path.join(dest, "nsl", "parsetab.py")
    if cache in ("valid", "stale", "torn") and not os.path.exists(tab):
        # this tree's parser keeps no table file (e.g. write_tables=False): every state is "absent"
        return "absent"
    if cache == "stale":
        with open(tab) as f:
            s = f.read()
        import re

        s2, n = re.subn(r"_lr_signature = (['\"])", r"_lr_signature = \1STALE", s, count=1)
        if n != 1:
            raise core.HarnessError("parser table file has no _lr_signature line")
        with open(tab, "w") as f:
            f.write(s2)
    elif cache == "torn":
        with open(tab) as f:
            s = f.read()
        with open(tab, "w") as f:
            f.write(s[: len(s) // 3])
    return cache


def run_proc(pdir, plan, hs, timeout=120, extra_env=None):
    os.makedirs(pdir, exist_ok=True)
    plan_path = os.path.join(pdir, "plan.json")
    plan["out"] = os.path.join(pdir, "result.json")
    with open(plan_path, "w") as f:
        json.dump(plan, f)
    env = repo.child_env(plan["tree"], hs, dict({"PYTHONPYCACHEPREFIX": os.path.join(pdir, "pyc")}, **(extra_env or {})))
    try:
        p = subprocess.run(
            [sys.executable, JOB, plan_path], cwd=pdir, env=env, capture_output=True, text=True, timeout=timeout,
            stdin=subprocess.DEVNULL,
        )
    except subprocess.TimeoutExpired:
        return None, "timeout"
    if not os.path.exists(plan["out"]):
        return None, f"exit {p.returncode}: {p.stderr[-400:]}"
    with open(plan["out"]) as f:
        return json.load(f), None


def _key(sc, i, opts):
    return hashlib.sha256((sc["sources"][i] + "\x1f" + core.canon(opts)).encode()).hexdigest()[:16]


def execute(sc, want_texts=False):
    root = os.path.join(_env["scratch"], "c18", f"s{sc.get('seed', 0)}-{os.getpid()}")
    if os.path.exists(root):
        shutil.rmtree(root)
    os.makedirs(root)
    try:
        return _execute(sc, root, want_texts)
    finally:
        shutil.rmtree(root, ignore_errors=True)


def _execute(sc, root, want_texts):
    log = core.EventLog()
    stats = {}
    contexts = set()

    def bump(k, n=1):
        stats[k] = stats.get(k, 0) + n

    def done(verdict, oracle=None, detail=None, **kw):
        r = {
            "verdict": verdict,
            "oracle": oracle,
            "detail": detail,
            "digest": log.digest(),
            "stats": stats,
            "events_tail": log.lines[-6:],
            "contexts": sorted(contexts)[:4000],
            "nontrivial": stats.get("keys_with_2plus_observations", 0) >= 1,
        }
        r.update(kw)
        return r

    observations = {}  # key -> list of (outcome, context description)
    for k, pr in enumerate(sc["procs"]):
        if not pr["history"]:
            continue
        pdir = os.path.join(root, f"p{k}")
        tree = os.path.join(pdir, "tree")
        if _prepare_tree(tree, pr["cache"]) != pr["cache"]:
            bump("cache_state_unavailable_no_table_file")
            pr = dict(pr, cache="absent")
        plan = {
            "tree": tree,
            "cwd": os.path.join(pdir, pr["cwd"]),
            "unwritable": pr["cache"] == "unwritable",
            "libs": (sc.get("libs") or {}).get(str(pr.get("libver", 0)), []) if isinstance(sc.get("libs"), dict)
            else sc.get("libs", []),
            "lib_versions": sc.get("libs") if isinstance(sc.get("libs"), dict) else {},
            "history": [[sc["sources"][i] if i >= 0 else None, o] for i, o in pr["history"]],
            "texts": bool(want_texts),
            "precreate": pr.get("precreate", 0),
            "optobjs": pr.get("optobjs", []),
            "clock_step": pr.get("clock_step"),
        }
        xenv = dict(pr.get("envnoise") or {})
        if pr.get("pyopt"):
            xenv["PYTHONOPTIMIZE"] = "1"
        if pr.get("envnoise"):
            bump("processes_with_other_environment_variables")
        if pr.get("clock_step") is not None:
            bump("processes_with_a_simulated_clock")
        res, err = run_proc(pdir, plan, pr["hs"], extra_env=xenv or None)
        bump("processes")
        bump("cache_" + pr["cache"])
        if res is None:
            if pr["cache"] == "torn":
                bump("probe_torn_table_process_died")
                continue
            return done("harness-error", "child", f"process {k} ({pr['cache']}, hash seed {pr['hs']}): {err}")
        if pr["cache"] == "torn":
            bump("probe_torn_table_boot_" + str(res["boot"]))
            log.add("proc", k=k, cache="torn", hs=pr["hs"], boot=res["boot"])
            shutil.rmtree(pdir, ignore_errors=True)
            continue  # beyond the statement: not judged
        if res["boot"] != "ok":
            # a fresh / stale / unwritable cache must not stop the compiler from starting
            return done(
                "violation",
                "compiler-does-not-start",
                f"process {k}: cache state {pr['cache']}, hash seed {pr['hs']}: Compiler() raised {res['boot']}",
                finding_key="boot-" + pr["cache"],
            )
        if res["table_regenerated"]:
            bump("probe_table_regenerated")
        if res["table_write_refused"]:
            bump("probe_table_write_refused", res["table_write_refused"])
        outs = []
        prev = "start"
        ver = pr.get("libver", 0)
        objstate = [dict(x) for x in pr.get("optobjs", [])]
        pre_left = pr.get("precreate", 0)  # the first jobs use the compilers constructed up front
        if pr.get("pyopt"):
            bump("processes_with_asserts_stripped")
        if pr.get("precreate"):
            bump("processes_with_compilers_constructed_up_front")
        for pos, ((i, o), ob) in enumerate(zip(pr["history"], res["obs"])):
            if i < 0:
                ver = o["relib"]
                bump("probe_process_changed_directory" if "chdir" in o else "probe_libraries_rebuilt_mid_history")
                prev = f"relib{ver}"
                continue
            if "$literal_fresh" in o:
                o = dict(o["$literal_fresh"], **{"$literal": True})
            elif "$obj" in o:
                # what the host has put into that dictionary so far is what it asked for
                objstate[o["$obj"]].update(o.get("$set", {}))
                # the key is the literal content the host has put into that dictionary (keys it never
                # set stay absent: what an absent key defaults to is the compiler's business)
                believed = objstate[o["$obj"]]
                if isinstance(ob.get("opts_seen"), dict) and ob["opts_seen"] != believed:
                    # the compiler itself has changed the caller's dictionary in an earlier job: the
                    # content at hand-over is what this job asked for
                    bump("probe_compiler_changed_the_hosts_options_object")
                    believed = ob["opts_seen"]
                o = dict(believed, **{"$literal": True})
                bump("jobs_with_a_reused_options_object")
            key = _key(sc, i, o)
            if "import " in sc["sources"][i]:
                # the store content is part of the input: the build in the directory the process is in
                # when it compiles AND (for a compiler constructed up front) the build in the directory
                # it was constructed in - which of the two a compiler looks at is not fixed by C18
                ctor_ver = pre_left and pr.get("libver", 0)
                key += f"|libs-v{ver}" + (f"|ctor-v{ctor_ver}" if pre_left else "")
            if pre_left:
                pre_left -= 1
            kind = ob["o"]
            bump("compilations")
            bump("outcome_" + kind.split(":")[0].lower())
            if kind in ("EXIT",) and pos + 1 < len(pr["history"]):
                bump("probe_systemexit_mid_history")
            if kind.startswith("EXC") and pos + 1 < len(pr["history"]):
                bump("probe_exception_mid_history")
            if o.get("debug-passes"):
                bump("debug_passes_jobs")
            outcome = [kind, ob.get("ir"), ob.get("wasm")]
            ctx = {"proc": k, "pos": pos, "hs": pr["hs"], "cache": pr["cache"], "cwd": pr["cwd"], "prev": prev}
            if pr.get("pyopt"):
                ctx["pyopt"] = True
            if want_texts:
                ctx["text"] = ob.get("text")
                ctx["wasm_hex"] = ob.get("wasm_hex")
            observations.setdefault(key, []).append((outcome, ctx, i, o))
            contexts.add(core.digest([key, prev, pr["cache"], pr["hs"] % 7]))
            prev = key
            outs.append(core.digest(outcome)[:8])
        log.add("proc", k=k, cache=pr["cache"], hs=pr["hs"], cwd=pr["cwd"], n=len(outs), regen=res["table_regenerated"],
                outs=outs)
        shutil.rmtree(pdir, ignore_errors=True)
    # ---- history check
    multi = 0
    for key in sorted(observations):
        obs = observations[key]
        if len(obs) >= 2:
            multi += 1
            bump("observation_pairs", len(obs) - 1)
        # asserts-stripped processes: compared among themselves always, and with normal processes
        # only when the source is accepted there (an assert that rejects a program is not an output)
        normal = [x for x in obs if not x[1].get("pyopt")]
        stripped = [x for x in obs if x[1].get("pyopt")]
        if normal and stripped and normal[0][0][0] != "ok":
            groups = [normal, stripped]
            bump("pyopt_observations_not_compared_with_normal_ones", len(stripped))
        else:
            groups = [normal + stripped]
        for grp in groups:
          first = grp[0] if grp else None
          for other in grp[1:]:
            if other[0] != first[0]:
                a, b = first, other
                if a[0][0] != b[0][0]:
                    fk = "outcome-kind"
                elif a[0][1] != b[0][1]:
                    fk = "ir-listing"
                else:
                    fk = "wasm-bytes"
                diff = ""
                if want_texts and a[1].get("text") and b[1].get("text"):
                    la, lb = a[1]["text"].splitlines(), b[1]["text"].splitlines()
                    for n, (x, y) in enumerate(zip(la, lb)):
                        if x != y:
                            diff = f"; first differing listing line {n}: {x!r} vs {y!r}"
                            break
                    else:
                        diff = f"; listings have {len(la)} vs {len(lb)} lines"

                def show(c):
                    return {kk: vv for kk, vv in c.items() if kk not in ("text", "wasm_hex")}

                return done(
                    "violation",
                    "nondeterministic",
                    f"source #{a[2]} with options {core.canon(a[3])} compiled to {a[0]} in context {show(a[1])} but to "
                    f"{b[0]} in context {show(b[1])}{diff}",
                    finding_key=fk,
                )
    bump("keys_with_2plus_observations", multi)
    bump("distinct_keys", len(observations))
    return done("ok")


def on_violation_detail(sc):
    """Re-execute with listings kept, to name the first differing line."""
    return execute(sc, want_texts=True)


# ------------------------------------------------------------------ shrinking


def shrink_candidates(sc):
    procs = sc["procs"]
    if len(procs) > 1:
        for keep in core.list_reductions(procs, 1):
            yield dict(sc, procs=keep)
    for k, p in enumerate(procs):
        for keep in core.list_reductions(p["history"], 1):
            c = copy.deepcopy(sc)
            c["procs"][k]["history"] = keep
            yield c
    for k, p in enumerate(procs):
        if p["cache"] != "valid":
            c = copy.deepcopy(sc)
            c["procs"][k]["cache"] = "valid"
            yield c
        if p["hs"] != 0:
            c = copy.deepcopy(sc)
            c["procs"][k]["hs"] = 0
            yield c
        if p["cwd"] != "w0":
            c = copy.deepcopy(sc)
            c["procs"][k]["cwd"] = "w0"
            yield c
        for j, (i, o) in enumerate(p["history"]):
            if o.get("debug-passes"):
                c = copy.deepcopy(sc)
                c["procs"][k]["history"][j][1].pop("debug-passes")
                yield c
    if sc.get("libs") and not any(i >= 0 and "import " in sc["sources"][i] for p in procs for i, _o in p["history"]):
        yield dict(sc, libs={})
    # drop unused sources (re-index)
    used = sorted({i for p in procs for i, _o in p["history"] if i >= 0})
    if len(used) < len(sc["sources"]):
        remap = {i: k for k, i in enumerate(used)}
        remap[-1] = -1
        c = copy.deepcopy(sc)
        c["sources"] = [sc["sources"][i] for i in used]
        for p in c["procs"]:
            p["history"] = [[remap[i], o] for i, o in p["history"]]
        yield c


def describe(sc):
    out = ["  --- minimised scenario ---"]
    for k, p in enumerate(sc["procs"]):
        out.append(
            f"  process {k}: PYTHONHASHSEED={p['hs']} table cache={p['cache']} cwd={p['cwd']} history="
            + " ".join((f"#{i}{'O' if o.get('optimize') else ''}{'W' if o.get('wasm') else ''}" if i >= 0
                        else f"relib-v{o['relib']}") for i, o in p["history"])
        )
    for i, s in enumerate(sc["sources"]):
        out.append(f"  source #{i}:")
        out += ["    | " + l for l in s.splitlines()[:30]]
    r = on_violation_detail(sc)
    if r.get("verdict") == "violation":
        out.append("  " + str(r.get("detail"))[:1500])
    return "\n".join(out)


def sample_view(sc):
    return {
        "processes": [
            {"PYTHONHASHSEED": p["hs"], "table_cache": p["cache"], "cwd": p["cwd"],
             "history": [[i, o] for i, o in p["history"]]}
            for p in sc["procs"]
        ],
        "sources": {f"#{i}": (s if len(s) < 400 else s[:400] + "...") for i, s in enumerate(sc["sources"])},
        "libs": sorted(sc["libs"]) if isinstance(sc.get("libs"), dict) else [],
    }


# ------------------------------------------------------------------ evidence


def summarize(results):
    tot = {}
    distinct = set()
    verdicts = {}
    contexts = set()
    for r in results:
        verdicts[r.get("verdict")] = verdicts.get(r.get("verdict"), 0) + 1
        core.merge_counts(tot, r.get("stats"))
        contexts.update(r.get("contexts") or [])
        if r.get("verdict") == "ok" and r.get("nontrivial"):
            distinct.add(r.get("sc_digest"))
    return {
        "verdicts": verdicts,
        "counters": tot,
        "distinct_compilation_contexts": len(contexts),
        "distinct_nontrivial": len(distinct),
    }


RULE = (
    "one case = 2-6 simulated processes (real child interpreters started one at a time), each with its own "
    "PYTHONHASHSEED, private working-tree copy with the PLY table cache valid / absent / stale / unwritable, cwd, and "
    "a history of 5-40 compilations (fresh Compiler() per job) over the /verif corpus (accepted, rejected, raising and "
    "sys.exit-ing sources, sources with two or three imports) plus generated programs, with options optimize / wasm / "
    "debug-passes; all observations (REJECT / EXC:class / SHA-256 of IR listing and of wasm bytes) of one (source, "
    "options) key across positions, histories, processes, hash seeds, cache states and cwds must be equal; "
    "non-trivial = at least one key observed at least twice; distinct = distinct scenario digests; a compilation "
    "context = (key, preceding key, cache state, hash-seed class)"
)

ASSUMPTIONS = [
    "the outcome of a compilation is REJECT, EXC:<class>, EXIT, or the IR listing plus wasm bytes; exception "
    "messages are not compared (they may legitimately contain addresses)",
    "imported library modules (libA, libB, libC) are compiled by every simulated process itself into its own cwd "
    "before the history starts, so the module store content is the same input for every observation",
    "CPython heap addresses are not behind a seam: address-ordered iteration reaching an output shows only "
    "statistically, through the cross-process comparison",
    "torn parser-table files are a beyond-statement probe: executed and tallied, never judged",
    "sampling, not proof: holds for the seeds run",
]

COMPONENTS = {
    "real": [
        "nsl.Compiler.Compiler construction (lexer, ply.yacc.yacc with its on-disk table cache) in real child "
        "interpreters",
        "every AST / IR pass, LowerToIR, optimisation passes, GenerateWasm, WebAssembly writer",
        "nsl.LinearIR.InstructionPrinter",
    ],
    "stub": ["job script sim/job18.py (drives the history)", "ply.yacc.open shim for the read-only install state",
             "scheduler (harness): processes run strictly one after the other"],
}
