"""C15 - global state persists exactly across invocation histories; VMs are
isolated.  World: real Compiler -> Linker -> Program -> several VirtualMachines
of the same Program, driven by a seeded history of host operations and checked
after every event against one reference state machine per VM.
"""
import copy
import sys

from . import core, gen15, lang
from .lang import Model, Fault, StepLimit, eq, jsonable

ID = "C15"

STEP_BASE = 20000
STEP_PER_MODEL_STEP = 400

_env = None
_counter = {"n": 0, "limit": None, "cancel_at": None, "cancel_fired": False}


class StepBudgetExceeded(BaseException):
    pass


class HostCancel(BaseException):
    """Raised by the cancellation probe inside an invocation."""


def _codes_of(module):
    import types

    seen = []

    def walk(code):
        seen.append(code)
        for c in code.co_consts:
            if isinstance(c, types.CodeType):
                walk(c)

    for v in list(vars(module).values()):
        if isinstance(v, type) and v.__module__ == module.__name__:
            for a in list(vars(v).values()):
                fn = getattr(a, "__func__", a)
                if isinstance(fn, types.FunctionType):
                    walk(fn.__code__)
                elif isinstance(a, property):
                    for g in (a.fget, a.fset):
                        if isinstance(g, types.FunctionType):
                            walk(g.__code__)
        elif isinstance(v, types.FunctionType) and v.__module__ == module.__name__:
            walk(v.__code__)
    return seen


_TOOL = 4


def install_step_counter(modules):
    """Count LINE events in the given modules' code objects (sys.monitoring,
    3.12): the logical clock of an invocation, the liveness budget and the
    injection point of the cancellation probe."""
    mon = sys.monitoring
    try:
        mon.use_tool_id(_TOOL, "nslsim")
    except ValueError:
        pass

    def on_line(code, line):
        c = _counter
        c["n"] += 1
        if c["cancel_at"] is not None and c["n"] == c["cancel_at"]:
            c["cancel_fired"] = True
            raise HostCancel()
        if c["limit"] is not None and c["n"] > c["limit"]:
            c["limit"] = None
            raise StepBudgetExceeded()

    mon.register_callback(_TOOL, mon.events.LINE, on_line)
    for m in modules:
        for code in _codes_of(m):
            mon.set_local_events(_TOOL, code, mon.events.LINE)


def worker_init(env):
    global _env
    if _env is not None:
        return
    _env = env
    from . import repo

    if "nsl" not in sys.modules or not getattr(sys.modules["nsl"], "__path__", [""])[0].startswith(env["tree"]):
        repo.activate(env["tree"])
    import nsl.VM

    install_step_counter([nsl.VM])


def generate(seed, tier):
    return gen15.gen_scenario(seed, tier)


def timeout_s(sc):
    return 60.0


def _observe(vm, prog):
    return {n: vm.GetGlobal(n) for n, _t in prog["globals"]}


def _foreign(x):
    """Does a value contain a leaf that is no number (None, a sentinel object, ...)?"""
    if isinstance(x, dict):
        return any(_foreign(v) for v in x.values())
    if isinstance(x, (list, tuple)):
        return any(_foreign(v) for v in x)
    return not isinstance(x, (int, float))


def execute(sc):
    if sc.get("cancel") and not sc.get("_isolated"):
        # the cancellation probe raises a host exception at an arbitrary line of the VM: whatever
        # process-wide state that leaves half-built must not reach the next scenarios of this chunk
        r = core.run_isolated(execute, dict(sc, _isolated=True), timeout_s(sc))
        if r.get("verdict") == "timeout":
            return {"verdict": "harness-error", "detail": "isolated cancellation-probe run timed out", "stats": {}}
        return r
    return _execute_guarded(sc)


def _execute_guarded(sc):
    import os

    old_cwd = os.getcwd()
    try:
        return _execute(sc)
    finally:
        os.chdir(old_cwd)
        if sc.get("two_module"):
            import shutil

            shutil.rmtree(os.path.join(_env["scratch"], "c15", f"s{sc.get('seed', 0)}-{os.getpid()}"), ignore_errors=True)


def _execute(sc):
    from nsl import Compiler, LinearIR, VM

    prog = sc["prog"]
    src = lang.program_src(prog)
    log = core.EventLog()
    stats = {}
    abstract = []
    states = []

    def bump(k, n=1):
        stats[k] = stats.get(k, 0) + n

    def done(verdict, oracle=None, detail=None, **kw):
        r = {
            "verdict": verdict,
            "oracle": oracle,
            "detail": detail,
            "digest": log.digest(),
            "stats": stats,
            "abstract": core.digest(abstract),
            "states": states,
            "events_tail": log.lines[-6:],
            "nontrivial": stats.get("op_inv", 0) >= 2 and stats.get("global_stores", 0) >= 1,
        }
        r.update(kw)
        return r

    store = None
    if sc.get("two_module"):
        # the globals are declared by a library module stored in a private directory; the main
        # module imports it (compile time) and the linker loads it (link time) from there
        import os
        import pickle
        import shutil

        store = os.path.join(_env["scratch"], "c15", f"s{sc.get('seed', 0)}-{os.getpid()}")
        shutil.rmtree(store, ignore_errors=True)
        os.makedirs(store)
        os.chdir(store)
        libsrc, src = lang.two_module_src(prog)
        with core.Quiet() as q:
            try:
                lres = Compiler.Compiler().Compile(libsrc)
            except (SystemExit, Exception) as e:
                return done("discard", "compile-lib", f"{type(e).__name__}")
        if lres is None:
            return done("discard", "compile-lib-reject", q.text[-300:])
        with open("glib.nslir", "wb") as f:
            pickle.dump(lres.IRModule, f)
        bump("two_module_programs")
        if prog.get("shadowing"):
            bump("functions_with_a_local_shadowing_an_imported_global", prog["shadowing"])
    with core.Quiet() as q:
        try:
            res = Compiler.Compiler().Compile(src, {"optimize": bool(sc.get("optimize"))})
        except SystemExit:
            return done("discard", "compile-exit", q.text[-300:])
        except Exception as e:
            return done("discard", "compile-exc", f"{type(e).__name__}: {str(e)[:200]}")
    if res is None:
        return done("discard", "compile-reject", q.text[-300:])
    module = res.IRModule
    programs = {}

    def program(idx):
        if idx not in programs:
            lk = LinearIR.Linker()
            lk.AddModule(module)
            programs[idx] = lk.Link()
        return programs[idx]

    vms = {}
    models = {}
    fnames = {f["name"]: f for f in prog["functions"]}
    # host-owned vector objects: created once, the *same* object is passed to every
    # invocation that names it; the reference model gets their pristine values
    host_pristine = sc.get("hostobjs", [])
    host_live = [list(x) for x in host_pristine]

    def vm_args(a):
        return {n: (host_live[x["$ref"]] if isinstance(x, dict) and "$ref" in x else copy.deepcopy(x)) for n, x in a.items()}

    def model_args(a):
        # the value the host passes is what its object holds *now* (C15 says nothing about what an
        # invocation may do to an argument object the host keeps; a VM that writes into it is tallied)
        out = {}
        for n, x in a.items():
            if isinstance(x, dict) and "$ref" in x:
                if host_live[x["$ref"]] != list(host_pristine[x["$ref"]]):
                    bump("probe_host_argument_object_was_written_by_the_vm")
                out[n] = copy.deepcopy(host_live[x["$ref"]])
            else:
                out[n] = copy.deepcopy(x)
        return out


    def unset_view(vm, name):
        try:
            return ["value", jsonable(vm.GetGlobal(name))]
        except Exception as e:
            return ["raises", type(e).__name__]

    # baseline: what a VM of a program nobody has touched shows for never-set globals
    baseline = None
    if any(o[0] == "get0" for o in sc["ops"]):
        lk0 = LinearIR.Linker()
        lk0.AddModule(module)
        v0 = VM.VirtualMachine(lk0.Link())
        baseline = {n: unset_view(v0, n) for n, _t in prog["globals"]}
        del v0
    cancel = sc.get("cancel")  # probe P1: {op index: line-event number}

    for i, op in enumerate(sc["ops"]):
        kind = op[0]
        v = op[1]
        bump("op_" + kind)
        if kind == "new":
            vms[v] = VM.VirtualMachine(program(op[2]))
            models[v] = Model(prog)
            log.add("new", vm=v, prog=op[2])
            abstract.append([v, "new", op[2]])
            if op[2] != 0:
                bump("vm_on_second_program")
            continue
        if v not in vms:
            continue  # (shrunk scenarios) operation on a VM that no longer exists
        if kind == "get0":
            if op[2] in models[v].g or baseline is None or op[2] not in baseline:
                continue
            got = unset_view(vms[v], op[2])
            log.add("get0", vm=v, name=op[2], view=got)
            bump("unset_global_views")
            if got != baseline[op[2]]:
                return done(
                    "violation",
                    "isolation-initial",
                    f"op {i}: the never-set global {op[2]} of the newly created vm{v} shows {got}, a VM of an untouched "
                    f"program shows {baseline[op[2]]}",
                )
            continue
        if kind == "abandon":
            del vms[v]
            del models[v]
            log.add("abandon", vm=v)
            abstract.append([v, "abandon"])
        elif kind == "set":
            vms[v].SetGlobal(op[2], copy.deepcopy(op[3]))
            models[v].g[op[2]] = copy.deepcopy(op[3])
            log.add("set", vm=v, name=op[2], value=op[3])
            abstract.append([v, "set", op[2]])
        elif kind == "reset":
            for n in sorted(op[2]):
                vms[v].SetGlobal(n, copy.deepcopy(op[2][n]))
                models[v].g[n] = copy.deepcopy(op[2][n])
            log.add("reset", vm=v)
            abstract.append([v, "reset"])
        elif kind == "get":
            if op[2] not in models[v].g:
                continue
            got = vms[v].GetGlobal(op[2])
            log.add("get", vm=v, name=op[2], value=jsonable(got))
            abstract.append([v, "get", op[2]])
            if not eq(got, models[v].g[op[2]]):
                return done(
                    "violation",
                    "get-mismatch",
                    f"op {i} {op}: vm={got!r} model={models[v].g[op[2]]!r}",
                )
        elif kind == "invx":
            # an unusual but legal call (an argument left out): judged by a clean-room twin, not by the
            # model - "each invocation starts with fresh locals and sees the globals as left by the
            # preceding operations" means: it does what a brand-new VM with the same globals does
            f = fnames.get(op[2])
            if f is None or any(n not in models[v].g for n, _t in prog["globals"]):
                continue
            if any(isinstance(x, dict) and "$ref" in x and x["$ref"] >= len(host_pristine) for x in op[3].values()):
                continue

            def outcome_of(vm, args):
                _counter["n"] = 0
                _counter["limit"] = STEP_BASE * 10
                try:
                    with core.Quiet():
                        r_ = ["ret", jsonable(vm.Invoke(op[2], **args))]
                except StepBudgetExceeded:
                    r_ = ["no-progress"]
                except Exception as e:
                    r_ = ["raises", type(e).__name__]
                finally:
                    _counter["limit"] = None
                return r_, {n: jsonable(vm.GetGlobal(n)) for n, _t in prog["globals"]}

            snap = {n: copy.deepcopy(vms[v].GetGlobal(n)) for n, _t in prog["globals"]}
            lkt = LinearIR.Linker()
            lkt.AddModule(module)
            twin = VM.VirtualMachine(lkt.Link())
            for n in sorted(snap):
                twin.SetGlobal(n, copy.deepcopy(snap[n]))
            margs_ = model_args(op[3])
            want = outcome_of(twin, margs_)
            got = outcome_of(vms[v], vm_args(op[3]))
            if got[0][0] == "no-progress" or want[0][0] == "no-progress":
                # the flat budget cuts the two runs at unrelated points: nothing to compare
                bump("twin_runs_cut_no_progress")
                return done("ok", None, "cut: an invocation with a missing argument did not finish in the budget", cut=True)
            bump("twin_checked_invocations")
            bump("twin_outcome_" + got[0][0])
            log.add("invx", vm=v, fn=op[2], args=op[3], outcome=got[0])
            abstract.append([v, "invx", op[2], got[0][0]])
            if not (got[0][0] == want[0][0] and (got[0][0] != "ret" or eq(got[0][1], want[0][1]))
                    and (got[0][0] != "raises" or got[0][1] == want[0][1]) and eq(got[1], want[1])):
                return done(
                    "violation",
                    "history-dependence",
                    f"op {i} {op}: on vm{v} (after its history) the invocation gives {got[0]} and globals {got[1]}, on a "
                    f"brand-new VM of a freshly linked program with the same globals it gives {want[0]} and {want[1]}",
                )
            models[v].g = copy.deepcopy(got[1])
            if _foreign(got[1]) or (got[0][0] == "ret" and _foreign(got[0][1])):
                # the missing argument ended up inside a global: from here on the precondition "every
                # global holds a value of its type" is gone, nothing later is judged
                bump("twin_runs_cut_unset_value_reached_a_global")
                return done("ok", None, "cut: a missing argument was stored into a global", cut=True)
        elif kind == "inv":
            f = fnames.get(op[2])
            if f is None or any(n not in op[3] for n, _t in f["params"]):
                continue
            if any(n not in models[v].g for n, _t in prog["globals"]):
                continue  # C05's precondition: every global set
            m = models[v]
            stores0 = m.stores
            mfault = None
            mres = None
            try:
                if any(isinstance(x, dict) and "$ref" in x and x["$ref"] >= len(host_pristine) for x in op[3].values()):
                    continue
                if any(isinstance(x, dict) and "$ref" in x for x in op[3].values()):
                    bump("host_vector_object_passed")
                mres = m.invoke(op[2], model_args(op[3]))
            except Fault as e:
                mfault = str(e)
            except StepLimit:
                return done("discard", "model-step-limit", f"op {i}")
            except (KeyError, TypeError, IndexError, ZeroDivisionError) as e:
                # only reachable for shrunk (no longer well-formed) programs
                return done("discard", "model-error", f"op {i}: {type(e).__name__}: {e}")
            bump("global_stores", m.stores - stores0)
            bump("model_steps", m.steps)
            limit = STEP_BASE + STEP_PER_MODEL_STEP * m.steps
            _counter["n"] = 0
            _counter["limit"] = limit
            _counter["cancel_at"] = cancel.get(str(i)) if cancel else None
            vexc = None
            vres = None
            cancelled = False
            try:
                with core.Quiet():
                    vres = vms[v].Invoke(op[2], **vm_args(op[3]))
            except StepBudgetExceeded:
                _counter["limit"] = None
                return done(
                    "violation",
                    "no-progress",
                    f"op {i} {op[:3]}: invocation exceeded {limit} VM line events "
                    f"(model finished in {m.steps} steps)",
                )
            except HostCancel:
                cancelled = True
            except Exception as e:
                vexc = type(e).__name__
            finally:
                _counter["limit"] = None
                _counter["cancel_at"] = None
                if _counter["cancel_fired"]:
                    # whatever came out of the invocation (the VM may wrap or swallow the host's exception)
                    cancelled = True
                    _counter["cancel_fired"] = False
            bump("vm_line_events", _counter["n"])
            if cancelled:
                # beyond-statement probe: adopt whatever the VM shows, keep going;
                # never judged.
                obs = _observe(vms[v], prog)
                hit = [s for s in (m.snapshots or []) if eq(s, obs)]
                bump("probe_cancel_injected")
                bump("probe_cancel_state_is_prefix" if hit else "probe_cancel_state_other")
                log.add("inv-cancelled", vm=v, fn=op[2], at=_counter["n"])
                abstract.append([v, "inv", op[2], "cancelled"])
                # is the VM still usable?  (tallied only)
                _counter["n"] = 0
                _counter["limit"] = limit
                try:
                    with core.Quiet():
                        vms[v].Invoke(op[2], **vm_args(op[3]))
                    bump("probe_cancel_vm_usable_afterwards")
                except StepBudgetExceeded:
                    bump("probe_cancel_next_invoke_does_not_return")
                except Exception as e:
                    bump("probe_cancel_next_invoke_raises_" + type(e).__name__)
                finally:
                    _counter["limit"] = None
                # C15 says nothing about cancelled invocations: nothing after this point is judged
                return done("ok", None, "cut: cancellation probe fired", cut=True)
            if mfault is not None:
                bump("fault_" + mfault)
                if m.stores - stores0 > 0:
                    bump("fault_after_global_store")
                if vexc is None:
                    # the VM did not fail where the reference does: C05's business,
                    # C15 says nothing about what follows.
                    bump("unasserted_cut")
                    log.add("inv", vm=v, fn=op[2], outcome="unasserted")
                    return done("ok", None, "cut: VM did not raise at a defined failure", cut=True)
                obs = _observe(vms[v], prog)
                hit = [k for k, s in enumerate(m.snapshots) if eq(s, obs)]
                log.add("inv", vm=v, fn=op[2], args=op[3], outcome="raise", exc=vexc, snap=hit[-1] if hit else None)
                abstract.append([v, "inv", op[2], "raise"])
                if not hit:
                    return done(
                        "violation",
                        "fault-poststate",
                        f"op {i} {op[:3]} failed with {vexc}; globals {jsonable(obs)!r} equal no state "
                        f"between invocation start and the failure point",
                    )
                if hit[-1] == 0 and len(m.snapshots) > 1:
                    bump("fault_rolled_back")
                m.g = copy.deepcopy(m.snapshots[hit[-1]])
            else:
                if vexc is not None:
                    log.add("inv", vm=v, fn=op[2], args=op[3], outcome="raise", exc=vexc)
                    return done(
                        "violation",
                        "invoke-raised",
                        f"op {i} {op}: VM raised {vexc}, reference returns {mres!r}",
                        exc=vexc,
                    )
                log.add("inv", vm=v, fn=op[2], args=op[3], outcome="ret", value=jsonable(vres))
                abstract.append([v, "inv", op[2], "ret"])
                if not eq(vres, mres):
                    return done(
                        "violation",
                        "result-mismatch",
                        f"op {i} {op}: vm={vres!r} model={mres!r}",
                    )
        else:
            raise ValueError(op)
        # invariants after every event: every global of every live VM
        gd = []
        for w in sorted(vms):
            mg = models[w].g
            for n, _t in prog["globals"]:
                if n not in mg:
                    continue
                got = vms[w].GetGlobal(n)
                if not eq(got, mg[n]):
                    acted = w == v
                    log.add("mismatch", vm=w, name=n, value=jsonable(got))
                    return done(
                        "violation",
                        "global-mismatch" if acted else "isolation",
                        f"after op {i} {op[:3]}: vm{w}.{n} = {got!r}, reference {mg[n]!r}"
                        + ("" if acted else f" (operation was on vm{v})"),
                    )
            gd.append([w, core.digest(mg)])
        sd = core.digest(gd)[:10]
        states.append(sd)
        log.add("state", s=sd)
    if len(set(o[1] for o in sc["ops"] if o[0] == "inv")) >= 2:
        bump("interleaved_multi_vm")
    return done("ok")


# ------------------------------------------------------------------ shrinking


def _body_reductions(body):
    """Candidates with one statement removed or a compound statement replaced
    by (part of) its body."""
    for i, s in enumerate(body):
        yield body[:i] + body[i + 1 :]
        k = s[0]
        if k == "if":
            yield body[:i] + s[2] + body[i + 1 :]
            if s[3] is not None:
                yield body[:i] + [["if", s[1], s[2], None]] + body[i + 1 :]
            for sub in _body_reductions(s[2]):
                yield body[:i] + [["if", s[1], sub, s[3]]] + body[i + 1 :]
            if s[3] is not None:
                for sub in _body_reductions(s[3]):
                    yield body[:i] + [["if", s[1], s[2], sub]] + body[i + 1 :]
        elif k == "for":
            for sub in _body_reductions(s[3]):
                yield body[:i] + [["for", s[1], s[2], sub]] + body[i + 1 :]
            if s[2] > 1:
                yield body[:i] + [["for", s[1], 1, s[3]]] + body[i + 1 :]
        elif k in ("while", "do"):
            for sub in _body_reductions(s[2][1:]):
                yield body[:i] + [[k, s[1], s[2][:1] + sub]] + body[i + 1 :]


def shrink_candidates(sc):
    ops = sc["ops"]
    # 1. drop operations (never a 'new' alone: drop a VM with all its operations)
    vm_ids = sorted({o[1] for o in ops if o[0] == "new"})
    if len(vm_ids) > 1:
        for v in vm_ids:
            c = dict(sc)
            c["ops"] = [o for o in ops if o[1] != v]
            yield c
    idx = [i for i, o in enumerate(ops) if o[0] != "new"]
    for keep in core.list_reductions(idx):
        ks = set(keep)
        c = dict(sc)
        c["ops"] = [o for i, o in enumerate(ops) if o[0] == "new" or i in ks]
        yield c
    # 2. drop functions that are never invoked or called
    prog = sc["prog"]
    used = {o[2] for o in ops if o[0] == "inv"}
    src = core.canon(prog["functions"])
    for f in prog["functions"]:
        if f["name"] not in used and src.count('"' + f["name"] + '"') <= 1:
            c = dict(sc)
            c["prog"] = dict(prog, functions=[g for g in prog["functions"] if g is not f])
            yield c
    # 3. drop globals that nothing mentions
    for n, t in prog["globals"]:
        if src.count('"' + n + '"') == 0:
            c = dict(sc)
            c["prog"] = dict(prog, globals=[g for g in prog["globals"] if g[0] != n])
            nops = []
            for o in ops:
                if o[0] in ("set", "get") and o[2] == n:
                    continue
                if o[0] == "reset" and n in o[2]:
                    o = [o[0], o[1], {k: x for k, x in o[2].items() if k != n}]
                nops.append(o)
            c["ops"] = nops
            yield c
    # 4. drop statements
    for fi, f in enumerate(prog["functions"]):
        for body in _body_reductions(f["body"]):
            c = dict(sc)
            fs = list(prog["functions"])
            fs[fi] = dict(f, body=body)
            c["prog"] = dict(prog, functions=fs)
            yield c
    # 5. simpler option
    if sc.get("optimize"):
        yield dict(sc, optimize=False)


# ------------------------------------------------------------------ evidence


def summarize(results):
    tot = {}
    abstract = set()
    states = set()
    distinct = set()
    verdicts = {}
    for r in results:
        verdicts[r.get("verdict")] = verdicts.get(r.get("verdict"), 0) + 1
        core.merge_counts(tot, r.get("stats"))
        if r.get("abstract"):
            abstract.add(r["abstract"])
        if len(states) < 3_000_000:
            states.update(r.get("states") or [])
        if r.get("verdict") == "ok" and r.get("nontrivial"):
            distinct.add(r.get("sc_digest"))
    return {
        "verdicts": verdicts,
        "counters": tot,
        "distinct_abstract_traces": len(abstract),
        "distinct_model_state_vectors": len(states),
        "distinct_nontrivial": len(distinct),
    }


RULE = (
    "one case = one generated program of the history language + one seeded history of host operations "
    "(new/abandon VM, SetGlobal, reset, Invoke, GetGlobal) on 1-4 VMs of the same Program, executed on the real "
    "compiler/linker/VM with every global of every live VM compared to the reference state machine after every "
    "event; non-trivial = completed without discard, >=2 invocations and >=1 executed store to a global; distinct = "
    "distinct scenario digests"
)

ASSUMPTIONS = [
    "the reference state machine (sim/lang.py Model) is the intended semantics of the history language",
    "program family restricted as listed in DESIGN.md C15 (no unparenthesised operator chains, no int division, "
    "parameters not read after a call, ...) so that defects belonging to C01/C03/C04/C08 are not reported here",
    "sampling, not proof: holds for the seeds run",
    "host passes a fresh object per SetGlobal and does not keep references",
]

COMPONENTS = {
    "real": [
        "nsl.Compiler.Compiler (parser, all passes, lowering)",
        "nsl.LinearIR.Linker/Program",
        "nsl.VM.VirtualMachine/ExecutionContext",
    ],
    "stub": ["host (harness issues the operations)", "reference state machine sim/lang.py"],
}
