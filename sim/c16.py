"""C16 - separately compiled, imported and linked modules behave like one
program.  World: real Compiler, pickle files in a private store directory,
real FilesystemModuleLoader / MemoryModuleLoader, real Linker and VM; in a
share of the runs the real nslc.py / nslr.py command lines as simulated
processes with their own hash seeds.  Oracles: refinement against the
one-module program, exactly-once loading, add-order independence, duplicate
rejection, freshness across re-compilations and store generations, liveness
of Link().
"""
import copy
import os
import pickle
import re
import shutil
import subprocess
import sys
import traceback

from . import core, gen16
from .lang import eq, jsonable

ID = "C16"

LINK_STEP_BUDGET = 400000

_env = None
_counter = {"n": 0, "limit": None}


class StepBudgetExceeded(BaseException):
    pass


def _install_link_counter():
    """LINE events inside the linker/loader code only: the logical clock of a
    Link() call and its liveness budget."""
    import nsl.LinearIR as L

    mon = sys.monitoring
    tool = 4
    try:
        mon.use_tool_id(tool, "nslsim")
    except ValueError:
        pass

    def on_line(code, line):
        c = _counter
        c["n"] += 1
        if c["limit"] is not None and c["n"] > c["limit"]:
            c["limit"] = None
            raise StepBudgetExceeded()

    mon.register_callback(tool, mon.events.LINE, on_line)
    import types

    for cls in (L.Linker, L.FilesystemModuleLoader, L.MemoryModuleLoader, L.ModuleLoader, L.Program):
        for a in vars(cls).values():
            fn = getattr(a, "__func__", a)
            if isinstance(a, property):
                fn = a.fget
            if isinstance(fn, types.FunctionType):
                mon.set_local_events(tool, fn.__code__, mon.events.LINE)


def worker_init(env):
    global _env
    if _env is not None:
        return
    _env = env
    from . import repo

    if "nsl" not in sys.modules or not getattr(sys.modules["nsl"], "__path__", [""])[0].startswith(env["tree"]):
        repo.activate(env["tree"])
    _install_link_counter()


def generate(seed, tier):
    return gen16.gen_scenario(seed, tier)


def timeout_s(sc):
    n_cli = sum(1 for s in sc.get("steps", []) if s.get("how") == "cli" or s.get("via") == "nslr")
    return 60.0 + 5.0 * n_cli


# ------------------------------------------------------------------ helpers


def _exc_key(e):
    """Exception class + function of the innermost frame inside nsl (no line
    numbers: robust against unrelated edits)."""
    where = "?"
    for fr in reversed(traceback.extract_tb(e.__traceback__)):
        fn = fr.filename.replace("\\", "/")
        if "/nsl/" in fn or fn.endswith(("nslc.py", "nslr.py")):
            where = os.path.basename(fn) + ":" + fr.name
            break
    return f"{type(e).__name__}@{where}"


_TB_FILE = re.compile(r'File "([^"]+)", line \d+, in (\S+)')


def _exc_key_from_text(stderr):
    """Same key from a child's traceback text."""
    lines = [l for l in stderr.strip().splitlines() if l.strip()]
    if not lines:
        return "?"
    cls = lines[-1].split(":")[0].strip().split(".")[-1]
    where = "?"
    for m in reversed(_TB_FILE.findall(stderr)):
        fn = m[0].replace("\\", "/")
        if "/nsl/" in fn or fn.endswith(("nslc.py", "nslr.py")):
            where = os.path.basename(fn) + ":" + m[1]
            break
    return f"{cls}@{where}"


def _closure(sc, add):
    seen = set()
    todo = list(add)
    while todo:
        m = todo.pop()
        if m in seen:
            continue
        seen.add(m)
        todo.extend(sc["modules"][m]["imports"])
    return seen


def _depth(sc, m, memo):
    if m not in memo:
        memo[m] = 1 + max([_depth(sc, x, memo) for x in sc["modules"][m]["imports"]], default=0)
    return memo[m]


class _World:
    pass


def _canonical(prog):
    from nsl import LinearIR

    out = {}
    for name in sorted(prog.Functions):
        lines = []

        def cb(*a, end="\n"):
            lines.append(" ".join(str(x) for x in a) + end)

        LinearIR.InstructionPrinter(cb).Print(prog.Functions[name])
        out[name] = "".join(lines)
    return {"functions": out, "globals": {k: str(v) for k, v in sorted(prog.Globals.items())}}


def _observe(prog, sc, set_globals=True, vm=None, part=None):
    """Run the observation history on a VM of prog.  part=(lo, hi) runs only that slice of the
    history (on the given, already used VM when vm is not None) and returns (vm, entries)."""
    from nsl import VM

    fresh = vm is None
    if fresh:
        vm = VM.VirtualMachine(prog)
    out = []
    if set_globals and fresh:
        for g in sorted(prog.Globals):
            if g in sc["ginit"]:
                vm.SetGlobal(g, copy.deepcopy(sc["ginit"][g]))
    hist = sc["hist"] if part is None else sc["hist"][part[0]:part[1]]
    for h in hist:
        if h["f"] not in prog.Functions:
            out.append([h["f"], "absent"])
            continue
        try:
            with core.Quiet():
                r = vm.Invoke(h["f"], **copy.deepcopy(h["args"]))
            out.append([h["f"], "ret", jsonable(r)])
        except Exception as e:
            out.append([h["f"], "exc", type(e).__name__])
    if part is not None and part[1] < len(sc["hist"]):
        return vm, out
    out.append(["globals", {g: jsonable(vm.GetGlobal(g)) for g in sorted(prog.Globals)}])
    return (vm, out) if part is not None else out


def _obs_equal(a, b):
    return len(a) == len(b) and all(eq(x, y) if not isinstance(x, str) else x == y for x, y in zip(_flat(a), _flat(b)))


def _flat(o):
    if isinstance(o, dict):
        for k in sorted(o):
            yield k
            yield from _flat(o[k])
    elif isinstance(o, (list, tuple)):
        yield "["
        for x in o:
            yield from _flat(x)
        yield "]"
    else:
        yield o


def _unused_imports(sc, m):
    """Imports of module m that nothing in m refers to (droppable without touching its functions)."""
    mods, funcs = sc["modules"], sc["funcs"]
    if mods[m].get("umbrella"):
        return []
    gmod = {g["name"]: g["mod"] for g in sc["globals"]}
    need = set()
    for f in funcs:
        if f["mod"] != m:
            continue
        for c in f["calls"]:
            need.add(funcs[c["f"]]["mod"])
        if f.get("glob"):
            need.add(gmod.get(f["glob"]))
    return [x for x in mods[m]["imports"] if x not in need]


def _apply_drops(sc, dropped):
    """The scenario with the import lines that recompilations have removed taken out."""
    if not dropped:
        return sc
    sc = dict(sc)
    mods = [dict(mm) for mm in sc["modules"]]
    for m, xs in dropped.items():
        if m >= len(mods):
            continue
        mod = mods[m]
        keep = [k for k, x in enumerate(mod["imports"]) if x not in xs]
        rep_ = mod.get("repeat_import")
        mod["imports"] = [mod["imports"][k] for k in keep]
        mod["place"] = [mod["place"][k] for k in keep]
        mod["repeat_import"] = keep.index(rep_) if rep_ in keep else None
    sc["modules"] = mods
    return sc


def _flat_equal(a, b):
    fa, fb = list(_flat(a)), list(_flat(b))
    if len(fa) != len(fb):
        return False
    for x, y in zip(fa, fb):
        if isinstance(x, str) or isinstance(y, str):
            if x != y:
                return False
        elif not eq(x, y):
            return False
    return True


_store_checked = {"ok": False}


def _store(mod, path):
    """Store a module the way nslc.py does (pickle.dump).  The first file written is read back
    through the product's loader: if that no longer works the stored-module format has changed and
    the harness is out of date (HARNESS-ERROR, never a VIOLATION)."""
    with open(path, "wb") as f:
        pickle.dump(mod, f)
    if not _store_checked["ok"]:
        from nsl import Compiler, LinearIR

        # the probe is a trivial module of its own, so that a loader that chokes on a particular
        # *program* is reported as what it is (a violation), not as a format change
        probe = os.path.join(os.path.dirname(path), "FormatProbe__.nslir")
        try:
            with core.Quiet():
                pm = Compiler.Compiler().Compile("export function probe__(int a) -> int { return a; }")
            with open(probe, "wb") as f:
                pickle.dump(pm.IRModule, f)
            LinearIR.FilesystemModuleLoader().Load(probe)
            os.unlink(probe)
        except Exception as e:
            raise core.HarnessError(
                f"a module stored by the harness with pickle.dump is not loadable by the product's loader "
                f"({type(e).__name__}: {e}); the stored-module format seems to have changed")
        _store_checked["ok"] = True


def _compile_inproc(src):
    from nsl import Compiler

    with core.Quiet() as q:
        try:
            res = Compiler.Compiler().Compile(src)
        except SystemExit:
            return None, "exit", q.text[-300:]
        except Exception as e:
            return None, "exc:" + _exc_key(e), f"{type(e).__name__}: {str(e)[:160]}"
    if res is None:
        return None, "reject", q.text[-300:]
    return res.IRModule, "ok", None


def _child(argv, cwd, hs, timeout=60):
    from . import repo

    env = repo.child_env(_env["tree"], hs)
    p = subprocess.run(
        [sys.executable] + argv, cwd=cwd, env=env, capture_output=True, text=True, timeout=timeout, stdin=subprocess.DEVNULL
    )
    if p.returncode < 0 or "MemoryError" in p.stderr or "Errno 28" in p.stderr or "Errno 5]" in p.stderr:
        # killed by a signal / out of memory / the scratch file system is full or failing: the
        # environment, not the product
        raise core.HarnessError(f"child {argv[:3]} died of its environment (exit {p.returncode}): {p.stderr[-200:]}")
    return p.returncode, p.stdout, p.stderr


# ------------------------------------------------------------------ execute


def execute(sc):
    if not gen16.well_formed(sc):
        return {"verdict": "discard", "oracle": "malformed", "detail": "scenario is not a legal partition", "stats": {}}
    store = os.path.join(_env["scratch"], "c16", f"s{sc.get('seed', 0)}-{os.getpid()}")
    if os.path.exists(store):
        shutil.rmtree(store)
    os.makedirs(store)
    old = os.getcwd()
    os.chdir(store)
    try:
        return _execute(sc, store)
    finally:
        os.chdir(old)
        shutil.rmtree(store, ignore_errors=True)


def _execute(sc, store):
    from nsl import LinearIR

    log = core.EventLog()
    stats = {}
    abstract = []
    mods = sc["modules"]
    nm = len(mods)

    def bump(k, n=1):
        stats[k] = stats.get(k, 0) + n

    def done(verdict, oracle=None, detail=None, **kw):
        r = {
            "verdict": verdict,
            "oracle": oracle,
            "detail": detail,
            "digest": log.digest(),
            "stats": stats,
            "abstract": core.digest(abstract),
            "events_tail": log.lines[-8:],
            "nontrivial": stats.get("links_compared", 0) >= 1 and stats.get("imports_loaded", 0) >= 1,
        }
        r.update(kw)
        return r

    # shape probes
    memo = {}
    depth = max(_depth(sc, m, memo) for m in range(nm))
    bump(f"shape_depth_{min(depth, 5)}")
    importers = {m: [x for x in range(nm) if m in mods[x]["imports"]] for m in range(nm)}
    if any(len(v) >= 2 for v in importers.values()):
        bump("shape_fan_in")
    if any(len(m["imports"]) >= 2 for m in mods):
        bump("shape_module_with_several_imports")
    if any(p != "first" for m in mods for p in m["place"]):
        bump("shape_import_not_first")
    gmod = {g["name"]: g["mod"] for g in sc["globals"]}
    if any(g["mod"] in [x for m in mods for x in m["imports"]] for g in sc["globals"]):
        bump("shape_imported_module_declares_global")
    if any(f.get("glob") and gmod.get(f["glob"]) != f["mod"] for f in sc["funcs"]):
        bump("shape_function_uses_imported_global")

    alive = []  # programs linked earlier in this scenario: (program, its observation, description)
    live_vms = []  # (program, VM that has run the first half of the history, its entries, half, description)
    variants = {}  # module -> variant of the latest stored compile (current generation)
    inmem = {}  # module -> IR module object of the latest compile
    cur_gen = None
    dropped = {}  # module -> imports its latest recompilation no longer has (current generation)
    refs = {}
    canon_by_state = {}

    class CountingLoader(LinearIR.ModuleLoader):
        def __init__(self, inner):
            self.loads = []
            self.inner = inner

        def Load(self, name, *a, **kw):
            self.loads.append(name)
            return self.inner.Load(name, *a, **kw)

        def __getattr__(self, attr):
            # whatever else the linker asks of a loader is answered by the real one
            return getattr(self.inner, attr)

    def reference(gen):
        key = (gen, tuple(sorted(variants.items())))
        if key not in refs:
            src = gen16.single_src(sc, gen, variants)
            mod, st, why = _compile_inproc(src)
            if mod is None:
                refs[key] = ("bad", f"{st}: {why}")
            else:
                try:
                    lk = LinearIR.Linker()
                    lk.AddModule(mod)
                    prog = lk.Link()
                    refs[key] = ("ok", prog, _observe(prog, sc), mod)
                except Exception as e:
                    refs[key] = ("bad", f"link/observe: {type(e).__name__}: {e}")
        return refs[key]

    def file_of(m):
        return mods[m]["name"] + ".nslir"

    def load_file(m):
        return LinearIR.FilesystemModuleLoader().Load(file_of(m))

    def host_module(m, src):
        if src == "mem" and m in inmem:
            return inmem[m]
        return load_file(m)

    def make_loader(kind, extra=None, ml=None):
        if kind == "fs":
            return LinearIR.FilesystemModuleLoader()
        ml = LinearIR.MemoryModuleLoader() if ml is None else ml
        for m in range(nm):
            if kind == "mem" and m in inmem:
                ml.AddModule(gen16.import_name(sc, m), inmem[m])
            else:
                ml.AddModule(gen16.import_name(sc, m), load_file(m))
        for name, mod in (extra or {}).items():
            ml.AddModule(name, mod)
        return ml

    def guarded_link(lk):
        _counter["n"] = 0
        _counter["limit"] = LINK_STEP_BUDGET
        try:
            return lk.Link()
        finally:
            _counter["limit"] = None
            bump("link_line_events", _counter["n"])

    sc0 = sc
    for si, st in enumerate(sc0["steps"]):
        op = st["op"]
        gen = st["gen"]
        if gen >= len(sc0["gens"]):
            continue
        if gen != cur_gen:
            dropped = {}
        sc = _apply_drops(gen16.view(sc0, gen), dropped)
        mods = sc["modules"]
        if gen != cur_gen:
            cur_gen = gen
            variants = {}
            # in-memory results of the previous generation are forgotten by the host
            inmem = {}
            canon_by_state = {}
            if gen > 0:
                bump("store_generation_2")
                if sc0["gens"][gen].get("rot"):
                    bump("store_generation_2_names_rotated")
        if op == "compile":
            m = st["mod"]
            if m >= nm:
                continue
            if any(not os.path.exists(file_of(x)) for x in mods[m]["imports"]):
                continue  # (shrunk schedules) an import was never stored
            if st.get("variant", 0) % 2 == 1 and _unused_imports(sc, m):
                # the rebuilt module has lost an import line it never used; its importers stay as they
                # were compiled.  (A module nobody imports any more is added by the host itself.)
                dropped.setdefault(m, set()).add(_unused_imports(sc, m)[0])
                sc = _apply_drops(gen16.view(sc0, gen), dropped)
                mods = sc["modules"]
                bump("recompiled_without_an_unused_import")
            src = gen16.module_src(sc, m, gen, st.get("variant", 0))
            with open(mods[m]["name"] + ".nsl", "w") as f:
                f.write(src)
            if st.get("variant", 0):
                bump("recompiled_after_importers")
            if st["how"] == "cli":
                bump("compile_cli")
                code, out, err = _child(
                    [os.path.join(_env["tree"], "nslc.py"), "-o", file_of(m), mods[m]["name"] + ".nsl"], store, st["hs"]
                )
                ok = code == 0 and os.path.exists(file_of(m)) and os.path.getsize(file_of(m)) > 0
                log.add("compile", mod=mods[m]["name"], how="cli", hs=st["hs"], gen=gen, code=code)
                if not ok:
                    ref = reference(gen)
                    if ref[0] == "bad":
                        return done("discard", "reference-bad", ref[1])
                    key = _exc_key_from_text(err) if "Traceback" in err else "reject"
                    if (key == "reject" or key.startswith("CompileException@")) and code >= 0 and (
                            mods[m].get("repeat_import") is not None or mods[m].get("umbrella")):
                        return done("discard", "policy-rejected-module", (err or out)[-300:])
                    return done(
                        "violation",
                        "compile-failed",
                        f"nslc.py could not compile module {mods[m]['name']} (exit {code}, {key}) although the same "
                        f"functions compile as one module; imports={[mods[x]['name'] for x in mods[m]['imports']]} "
                        f"placement={mods[m]['place']}",
                        finding_key=key,
                    )
                try:
                    inmem[m] = load_file(m)
                except Exception as e:
                    return done("violation", "stored-module-unloadable", f"{mods[m]['name']}: {type(e).__name__}: {e}",
                                finding_key=_exc_key(e))
            else:
                bump("compile_inproc")
                mod, status, why = _compile_inproc(src)
                log.add("compile", mod=mods[m]["name"], how="inproc", gen=gen, status=status.split(":")[0])
                if mod is None:
                    ref = reference(gen)
                    if ref[0] == "bad":
                        return done("discard", "reference-bad", ref[1])
                    if (status == "reject" or status.startswith("exc:CompileException@")) and (mods[m].get("repeat_import") is not None or mods[m].get("umbrella")):
                        # a diagnosed rejection of a repeated import line / of a module without functions
                        # is a language-policy decision the property does not exclude
                        return done("discard", "policy-rejected-module", why)
                    key = status[4:] if status.startswith("exc:") else status
                    return done(
                        "violation",
                        "compile-failed",
                        f"module {mods[m]['name']} does not compile ({status}: {why}) although the same functions "
                        f"compile as one module; imports={[mods[x]['name'] for x in mods[m]['imports']]} "
                        f"placement={mods[m]['place']}",
                        finding_key=key,
                    )
                _store(mod, file_of(m))
                inmem[m] = mod
            variants[m] = st.get("variant", 0)
            if not variants[m]:
                variants.pop(m)
            canon_by_state = {}
            continue

        # every later step needs the whole store
        if any(not os.path.exists(file_of(m)) for m in range(nm)):
            continue
        ref = reference(gen)
        if ref[0] == "bad":
            return done("discard", "reference-bad", ref[1])
        _, refprog, refobs, refmod = ref

        if op == "link":
            add = [m for m in st["add"] if m < nm]
            if not add:
                continue
            if dropped:
                orphans = sorted(set(range(nm)) - _closure(sc, add))
                if orphans and st["via"] == "nslr":
                    continue  # nslr.py starts from one root
                if orphans:
                    add = add + orphans
                    bump("links_with_a_module_orphaned_by_a_dropped_import")
            closure = _closure(sc, add)
            if len(closure) != nm:
                continue  # (shrunk) the add set no longer covers the program
            need = closure - set(add)
            added_and_imported = any(m in _closure(sc, [x for a in add for x in mods[a]["imports"]]) for m in add)
            names_add = [mods[m]["name"] for m in add]
            if added_and_imported:
                bump("added_and_imported")
            if st["via"] == "nslr":
                r = _link_nslr(sc, dict(st, stale_variants=bool(variants)), add, refmod, store, log, bump)
                if r is not None:
                    return done(*r[:3], **r[3])
                abstract.append(["nslr", names_add])
                continue
            bump("links")
            bump("loader_" + st["loader"])
            default_loader = st["loader"] == "default" and not any(m.get("suffix") for m in mods)
            mem_kind = st["loader"] in ("mem", "memfile")
            # a host that works from memory builds its linker first and registers the modules with the
            # (still empty) loader afterwards ...
            late_fill = mem_kind and st["hs"] % 5 == 0
            # ... and need not be in the store directory when it links
            elsewhere = mem_kind and st["hs"] % 3 == 0
            exc = None
            prog = None
            if late_fill:
                raw = LinearIR.MemoryModuleLoader()
                ld = CountingLoader(raw)  # counts nothing here: the linker gets the loader itself
                lk = LinearIR.Linker(loader=raw)
                make_loader(st["loader"], ml=raw)
                bump("links_with_loader_filled_after_linker_construction")
            else:
                ld = CountingLoader(make_loader("fs" if st["loader"] == "default" else st["loader"]))
                # "default": Linker() as nslr.py and most hosts create it - its own (shared
                # default-argument) FilesystemModuleLoader; loads cannot be counted there
                lk = LinearIR.Linker() if default_loader else LinearIR.Linker(loader=ld)
            default_loader = default_loader or late_fill  # (loads not observable: assumed)
            try:
                hms = [host_module(m, st["addsrc"]) for m in add]
                if elsewhere:
                    os.makedirs(os.path.join(store, "empty-cwd"), exist_ok=True)
                    os.chdir(os.path.join(store, "empty-cwd"))
                    bump("links_from_memory_in_an_empty_directory")
                try:
                    for hm_ in hms:
                        lk.AddModule(hm_)
                    prog = guarded_link(lk)
                finally:
                    os.chdir(store)
            except StepBudgetExceeded:
                return done(
                    "violation",
                    "no-progress",
                    f"Link() exceeded {LINK_STEP_BUDGET} line events; add={names_add} loads={ld.loads[:12]}...",
                    finding_key="link",
                )
            except Exception as e:
                exc = e
            loads = list(ld.loads)
            log.add("link", add=names_add, loader=st["loader"], loads=sorted(loads),
                    outcome="program" if prog is not None else "raise:" + type(exc).__name__)
            abstract.append(["link", names_add, loads, prog is not None])
            if exc is not None:
                if added_and_imported:
                    bump("added_and_imported_rejected")
                    continue  # reading 2 of the statement: a duplicate-definition rejection
                if variants and type(exc).__name__ not in ("RuntimeError", "KeyError", "AssertionError", "TypeError",
                                                          "AttributeError", "RecursionError"):
                    # a module was rebuilt after its importers were compiled: a linker that refuses such a
                    # stale set with an error of its own is within the statement
                    bump("stale_importers_refused_by_the_linker")
                    continue
                return done(
                    "violation",
                    "link-failed",
                    f"Link raised {type(exc).__name__}: {str(exc)[:120]}; add={names_add} loads={loads} "
                    f"(import depth {depth})",
                    finding_key=_exc_key(exc),
                )
            if default_loader:
                bump("links_with_default_loader")
                loads = [gen16.import_name(sc, m) for m in sorted(need)]  # not observable: assumed
            bump("imports_loaded", len(loads))
            if len(loads) >= 3:
                bump("probe_three_or_more_imports_loaded")
            if len(set(loads)) != len(loads):
                return done("violation", "loaded-twice", f"add={names_add} loads={loads}", finding_key="loaded-twice")
            want = {gen16.import_name(sc, m) for m in need}
            have = set(loads)
            allowed = {gen16.import_name(sc, m) for m in closure}
            if not (want <= have <= (allowed if added_and_imported else want)):
                return done(
                    "violation",
                    "load-set",
                    f"add={names_add} loaded={sorted(have)} but the import closure needs exactly {sorted(want)}",
                    finding_key="load-set",
                )
            obs = _observe(prog, sc)
            bump("links_compared")
            log.add("obs", d=core.digest(jsonable(obs)))
            if not _flat_equal(obs, refobs):
                k = next((i for i, (x, y) in enumerate(zip(obs, refobs)) if not _flat_equal(x, y)), None)
                return done(
                    "violation",
                    "behaviour",
                    f"linked program (add={names_add}, loader={st['loader']}, generation {gen}, variants "
                    f"{ {mods[m]['name']: v for m, v in variants.items()} }) differs from the one-module program at "
                    f"history step {k}: multi={obs[k] if k is not None and k < len(obs) else obs[-1]!r} "
                    f"single={refobs[k] if k is not None and k < len(refobs) else refobs[-1]!r}",
                    finding_key="behaviour" + ("-gen2" if gen > 0 else "") + ("-recompiled" if variants else ""),
                )
            for oprog, lvm, first, half, odesc in live_vms:
                _vm, rest = _observe(oprog, sc, vm=lvm, part=(half, len(sc["hist"])))
                bump("live_vms_resumed_after_a_later_link")
                want = next((o for p_, o, _d in alive if p_ is oprog), None)
                if want is not None and not _flat_equal(first + rest, want):
                    return done(
                        "violation",
                        "earlier-program-changed",
                        f"a VM of the program linked earlier ({odesc}) was used for the first {half} history steps before "
                        f"and for the rest after linking and running add={names_add}: it gives {(first + rest)[half:half + 3]!r}..., "
                        f"a VM that ran the whole history at once gave {want[half:half + 3]!r}...",
                        finding_key="earlier-program-changed-live-vm",
                    )
            live_vms[:] = []
            # a program linked earlier (from the same module objects, against an older state of
            # the store) is a value of its own: linking another program must not change it
            for oprog, oobs, odesc in alive[-2:]:
                again = _observe(oprog, sc)
                bump("earlier_programs_reobserved")
                if not _flat_equal(again, oobs):
                    k = next((i for i, (x, y) in enumerate(zip(again, oobs)) if not _flat_equal(x, y)), None)
                    return done(
                        "violation",
                        "earlier-program-changed",
                        f"after linking add={names_add} the program linked earlier ({odesc}) behaves differently at "
                        f"history step {k}: now {again[k] if k is not None and k < len(again) else again[-1]!r}, before "
                        f"{oobs[k] if k is not None and k < len(oobs) else oobs[-1]!r}",
                        finding_key="earlier-program-changed",
                    )
            # ... and a VM of it stays in use: the first half of the history now, the rest after the
            # next program has been linked and run
            half = len(sc["hist"]) // 2
            if half >= 1:
                lvm, first = _observe(prog, sc, vm=None, part=(0, half))
                live_vms[:] = live_vms[-1:] + [(prog, lvm, first, half, f"add={names_add}, generation {gen}")]
            alive.append((prog, obs, f"add={names_add}, generation {gen}, variants {dict(variants)}"))
            if st.get("dup_after"):
                # a second definition offered to the same linker *after* the link: whether it is refused
                # or not, the program already linked (and the VMs living on it) must not change
                v_ = next((f_ for f_ in sc["funcs"] if f_.get("export", True)), None)
                if v_ is not None:
                    params_ = ", ".join(f"{t} {n}" for n, t in v_["params"])
                    dsrc_ = (f"export function {v_['name']}({params_}) -> {v_['ret']} {{\n  return "
                             f"{'4242' if v_['ret'] == 'int' else '4242.5'};\n}}\n")
                    dmod_, _st, _why = _compile_inproc(dsrc_)
                    if dmod_ is not None:
                        try:
                            lk.AddModule(dmod_)
                            bump("dup_after_link_not_refused")
                        except Exception:
                            bump("dup_after_link_refused")
                        again = _observe(prog, sc)
                        if not _flat_equal(again, obs):
                            k = next((i for i, (x, y) in enumerate(zip(again, obs)) if not _flat_equal(x, y)), None)
                            return done(
                                "violation",
                                "earlier-program-changed",
                                f"after a second definition of {v_['name']} was offered to the linker that had produced it, "
                                f"the program (add={names_add}) behaves differently at history step {k}: now "
                                f"{again[k] if k is not None and k < len(again) else again[-1]!r}, before "
                                f"{obs[k] if k is not None and k < len(obs) else obs[-1]!r}",
                                finding_key="earlier-program-changed-by-late-duplicate",
                            )
            can = _canonical(prog)
            ck = "state"
            if ck in canon_by_state:
                bump("order_pairs_compared")
                if canon_by_state[ck][0] != can:
                    return done(
                        "violation",
                        "order-dependence",
                        f"the same store linked with add={canon_by_state[ck][1]} and add={names_add} gives different "
                        f"programs",
                        finding_key="order-dependence",
                    )
            else:
                canon_by_state[ck] = (can, names_add)
            continue

        if op == "probe":
            importers_ = {m: [x for x in range(nm) if m in mods[x]["imports"]] for m in range(nm)}
            roots_ = [m for m in range(nm) if not importers_[m]]
            lk = LinearIR.Linker(loader=LinearIR.FilesystemModuleLoader())
            if st["kind"] == "relink":
                try:
                    for m in roots_:
                        lk.AddModule(load_file(m))
                    guarded_link(lk)
                    guarded_link(lk)
                    bump("probe_relink_second_link_returns")
                except StepBudgetExceeded:
                    bump("probe_relink_no_progress")
                except Exception as e:
                    bump("probe_relink_raises_" + type(e).__name__)
            else:
                need_ = sorted(set(range(nm)) - set(roots_))
                if need_:
                    v_ = need_[st["victim"] % len(need_)]
                    os.rename(file_of(v_), file_of(v_) + ".hidden")
                    failed_ = False
                    added_ = False
                    try:
                        for m in roots_:
                            lk.AddModule(load_file(m))
                        added_ = True
                        guarded_link(lk)
                        bump("probe_missing_module_link_returns")
                    except StepBudgetExceeded:
                        bump("probe_missing_module_no_progress")
                    except Exception as e:
                        bump("probe_missing_module_raises_" + type(e).__name__)
                        # only a failure of Link() itself is retried: a linker that resolves imports in
                        # AddModule has refused the *module*, and a Link() after that is the host's mistake
                        failed_ = added_
                    finally:
                        os.rename(file_of(v_) + ".hidden", file_of(v_))
                    if failed_:
                        # the module is provided and the host asks the same linker again.  Whether a
                        # linker is usable after a failure is not stated (tallied); a program it *returns*
                        # is a linked program like any other and is judged
                        prog2 = None
                        try:
                            prog2 = guarded_link(lk)
                            bump("retry_after_failed_link_returns")
                        except StepBudgetExceeded:
                            bump("probe_retry_after_failed_link_no_progress")
                        except Exception as e:
                            bump("probe_retry_after_failed_link_raises_" + type(e).__name__)
                        if prog2 is not None:
                            obs2 = _observe(prog2, sc)
                            bump("links_compared")
                            if not _flat_equal(obs2, refobs):
                                k = next((i for i, (x, y) in enumerate(zip(obs2, refobs)) if not _flat_equal(x, y)), None)
                                return done(
                                    "violation",
                                    "behaviour",
                                    f"Link() failed while {mods[v_]['name']} was missing; after the module was provided the same "
                                    f"linker returned a program that differs from the one-module program at history step {k}: "
                                    f"multi={obs2[k] if k is not None and k < len(obs2) else obs2[-1]!r} "
                                    f"single={refobs[k] if k is not None and k < len(refobs) else refobs[-1]!r}",
                                    finding_key="behaviour-retry-after-failed-link",
                                )
            log.add("probe", what=st["kind"])
            continue
        if op == "dup":
            r = _dup_step(sc, st, LinearIR, make_loader, host_module, guarded_link, CountingLoader, log, bump, nm)
            if r is not None:
                return done(*r[:3], **r[3])
            continue
        raise ValueError(st)
    return done("ok")


def _link_nslr(sc, st, add, refmod, store, log, bump):
    """Link and run through the real nslr.py command line (one root module).
    The reference is the same command line run on the one-module program, so
    the comparison does not depend on what nslr.py prints around the value."""
    mods = sc["modules"]
    root = mods[add[0]]["name"] + ".nslir"
    one = "OneModuleReference__.nslir"
    _store(refmod, one)
    n = 0
    decoy = None
    decoy_probe = None
    if st["hs"] % 2 == 0 and len(mods) > 1:
        # the root module is started through a path into another directory that also holds
        # *other* builds of the imported modules (an old dist/ folder): imports are resolved
        # against the current directory, exactly as they were when the root was compiled
        decoy = "dist_old"
        os.makedirs(decoy, exist_ok=True)
        shutil.copy(root, os.path.join(decoy, root))
        for m in range(len(mods)):
            if m == add[0]:
                continue
            dm, status, _why = _compile_inproc(gen16.module_src(sc, m, st["gen"], 23))
            if dm is None:
                decoy = None
                break
            _store(dm, os.path.join("dist_old", mods[m]["name"] + ".nslir"))
        if decoy:
            # beyond-statement probe: C16 says "imported by name", not relative to what; the run through
            # the decoy directory is tallied, the judged run uses the root in the current directory
            decoy_probe = os.path.join(decoy, root)

    def outcome(code, out, err, modarg=""):
        lines = [l for l in out.splitlines() if l.strip()]
        if code == 0:
            last = lines[-1] if lines else ""
            # the two commands differ in their MODULE argument only: whatever the tool prints about it
            # (path, file name, stem) is not part of the result.  Two normalisations - with and without
            # the bare stem, which for a module called "a" also occurs in unrelated words; the
            # outcomes agree if either normalisation agrees
            toks = sorted({modarg, os.path.basename(modarg), os.path.abspath(modarg)}, key=len, reverse=True)
            norm1 = last
            for tok in toks:
                if tok:
                    norm1 = norm1.replace(tok, "<MODULE>")
            stem = os.path.splitext(os.path.basename(modarg))[0]
            norm2 = re.sub(r"(?<![A-Za-z0-9_])" + re.escape(stem) + r"(?![A-Za-z0-9_])", "<MODULE>", norm1) if stem else norm1
            return ["ok", norm1, norm2]
        last = err.strip().splitlines()[-1] if err.strip() else ""
        return ["fail", last.split(":")[0].split(".")[-1]]

    def same(a, b):
        if a[0] != b[0]:
            return False
        if a[0] == "ok":
            return a[1] == b[1] or a[2] == b[2]
        return a == b

    try:
        for h in sc["hist"]:
            if n >= 2:
                break
            f = next(x for x in sc["funcs"] if x["name"] == h["f"])
            if any(t not in ("int", "float") for _p, t in f["params"]):
                continue  # nslr.py converts scalar arguments only
            if any(v < 0 for v in h["args"].values()):
                continue
            n += 1
            args = [str(int(h["args"][p]) if t == "int" else float(h["args"][p])) for p, t in f["params"]]
            tool = os.path.join(_env["tree"], "nslr.py")
            exp = outcome(*_child([tool, "run", one, h["f"]] + args, store, st["hs"]), modarg=one)
            code, out, err = _child([tool, "run", root, h["f"]] + args, store, st["hs"])
            got = outcome(code, out, err, modarg=root)
            bump("link_nslr")
            log.add("nslr", root=root, fn=h["f"], hs=st["hs"], got=got)
            if decoy_probe:
                pr_ = outcome(*_child([tool, "run", decoy_probe, h["f"]] + args, store, st["hs"]), modarg=decoy_probe)
                bump("probe_nslr_through_decoy_directory_" + ("same_as_reference" if same(pr_, exp) else "differs"))
            if (not same(got, exp) and st.get("stale_variants") and got[0] == "fail" and exp[0] == "ok"
                    and got[1] not in ("RuntimeError", "KeyError", "AssertionError", "TypeError", "AttributeError",
                                       "RecursionError")):
                # as for the in-process link: a linker that refuses importers compiled before a module was
                # rebuilt, with an error of its own, is within the statement
                bump("stale_importers_refused_by_the_linker")
                continue
            if not same(got, exp):
                key = _exc_key_from_text(err) if "Traceback" in err else "output"
                return (
                    "violation",
                    "cli-mismatch",
                    f"nslr.py run {root} {h['f']} {args} (hash seed {st['hs']}) gives {got}, the same command on the "
                    f"one-module program gives {exp}",
                    {"finding_key": key},
                )
    finally:
        if os.path.exists(one):
            os.unlink(one)
        if decoy:
            shutil.rmtree("dist_old", ignore_errors=True)
    return None


def _dup_step(sc, st, LinearIR, make_loader, host_module, guarded_link, CountingLoader, log, bump, nm):
    """A second definition of an existing function or global must be rejected."""
    funcs, mods = sc["funcs"], sc["modules"]
    importers = {m: [x for x in range(nm) if m in mods[x]["imports"]] for m in range(nm)}
    roots = [m for m in range(nm) if not importers[m]]
    if st["kind"] == "func":
        v = funcs[st["victim"] % len(funcs)]
        params = ", ".join(f"{t} {n}" for n, t in v["params"])
        body = "777" if v["ret"] == "int" else "777.5"
        exp = "export " if v.get("export", True) else ""  # a non-exported function is known by its mangled name
        dsrc = f"{exp}function {v['name']}({params}) -> {v['ret']} {{\n  return {body};\n}}\n"
        what = f"function {v['name']}"
    else:
        if not sc["globals"]:
            return None
        g = sc["globals"][st["gvictim"] % len(sc["globals"])]
        dsrc = f"{g['type']} {g['name']};\n"
        if g["type"].startswith("G"):
            k = g["type"][1:]
            dsrc = f"struct {g['type']} {{ int ga{k}; float gb{k}; }}\n" + dsrc
        what = f"global {g['name']}"
    dsrc += "export function dup_only(int a) -> int {\n  return (a + 1);\n}\n"
    dmod, status, why = _compile_inproc(dsrc)
    if dmod is None:
        return ("discard", "dup-module-bad", f"{status}: {why}", {})
    bump("dup_steps")
    bump("dup_" + st["kind"] + "_" + st["where"])
    extra = {}
    addmods = [host_module(m, "file") for m in roots]
    if st["where"] == "imported":
        _store(dmod, "DupMod.nslir")
        rsrc = 'import "DupMod";\nexport function dup_root(int a) -> int {\n  return dup_only(a);\n}\n'
        rmod, status, why = _compile_inproc(rsrc)
        if rmod is None:
            return ("discard", "dup-root-bad", f"{status}: {why}", {})
        extra["DupMod"] = dmod
        addmods = addmods + [rmod]
    elif st["where"] == "added-first":
        addmods = [dmod] + addmods
    else:
        addmods = addmods + [dmod]
    ld = CountingLoader(make_loader(st["loader"], extra))
    lk = LinearIR.Linker(loader=ld)
    try:
        for m in addmods:
            lk.AddModule(m)
        prog = guarded_link(lk)
    except StepBudgetExceeded:
        return ("violation", "no-progress", "Link() exceeded its step budget in a duplicate-definition step", {"finding_key": "link"})
    except Exception as e:
        log.add("dup", what=what, where=st["where"], outcome="rejected")
        bump("dup_rejected")
        return None
    log.add("dup", what=what, where=st["where"], outcome="accepted")
    return (
        "violation",
        "dup-accepted",
        f"a second definition of {what} ({st['where']}, loader {st['loader']}) was linked without complaint; "
        f"loads={ld.loads}",
        {"finding_key": "dup-" + st["kind"]},
    )


# ------------------------------------------------------------------ shrinking


def _drop_func(sc, i):
    funcs = sc["funcs"]
    if any(c["f"] == i for f in funcs for c in f["calls"]):
        return None
    c = copy.deepcopy(sc)
    name = funcs[i]["name"]
    del c["funcs"][i]
    for f in c["funcs"]:
        for cl in f["calls"]:
            if cl["f"] > i:
                cl["f"] -= 1
    for g in c["gens"]:
        del g["dk"][i]
    c["hist"] = [h for h in c["hist"] if h["f"] != name]
    for s in c["steps"]:
        if s["op"] == "dup" and s.get("victim", 0) >= len(c["funcs"]):
            s["victim"] = 0
    m = funcs[i]["mod"]
    if not any(f["mod"] == m for f in c["funcs"]):
        c = _drop_module(c, m)
    return c


def _drop_module(c, m):
    """Remove an (empty) module; its importers import what it imported."""
    mods = c["modules"]
    if any(g["mod"] == m and any(f.get("glob") == g["name"] for f in c["funcs"]) for g in c["globals"]):
        return None
    c["globals"] = [g for g in c["globals"] if g["mod"] != m]
    for g in c["globals"]:
        if g["mod"] > m:
            g["mod"] -= 1
    for x, mod in enumerate(mods):
        if m in mod["imports"]:
            k = mod["imports"].index(m)
            del mod["imports"][k]
            del mod["place"][k]
        mod["imports"] = [y - 1 if y > m else y for y in mod["imports"]]
    del mods[m]
    for f in c["funcs"]:
        if f["mod"] > m:
            f["mod"] -= 1
    steps = []
    for s in c["steps"]:
        s = dict(s)
        if s["op"] == "compile":
            if s["mod"] == m:
                continue
            if s["mod"] > m:
                s["mod"] -= 1
        if s["op"] == "link":
            s["add"] = [y - 1 if y > m else y for y in s["add"] if y != m]
        steps.append(s)
    c["steps"] = steps
    return c


def shrink_candidates(sc):
    steps = sc["steps"]
    # 1. drop later generations
    if len(sc["gens"]) > 1:
        c = copy.deepcopy(sc)
        c["gens"] = c["gens"][:1]
        c["steps"] = [s for s in steps if s["gen"] == 0]
        yield c
    # 2. drop non-compile steps, then re-compilations
    idx = [i for i, s in enumerate(steps) if s["op"] != "compile" or s.get("variant")]
    for keep in core.list_reductions(idx):
        ks = set(keep)
        c = dict(sc)
        c["steps"] = [s for i, s in enumerate(steps) if (s["op"] == "compile" and not s.get("variant")) or i in ks]
        yield c
    # 3. history
    for keep in core.list_reductions(sc["hist"], 2):
        yield dict(sc, hist=keep)
    # 4. functions nobody calls (and with them, empty modules)
    for i in reversed(range(len(sc["funcs"]))):
        if len(sc["funcs"]) > 1:
            c = _drop_func(sc, i)
            if c is not None and gen16.well_formed(c):
                yield c
    # 5. calls
    for i, f in enumerate(sc["funcs"]):
        for k in range(len(f["calls"])):
            c = copy.deepcopy(sc)
            del c["funcs"][i]["calls"][k]
            yield c
    # 6. simpler bodies, helpers, structs
    for i, f in enumerate(sc["funcs"]):
        if f.get("tmpl") != "expr":
            c = copy.deepcopy(sc)
            c["funcs"][i]["tmpl"] = "expr"
            c["funcs"][i]["glob"] = None
            yield c
        if len(f["params"]) > 1 and not any(cl["f"] == i for g in sc["funcs"] for cl in g["calls"]):
            pass
    for m, mod in enumerate(sc["modules"]):
        if mod["helpers"] and not any(f["mod"] == m and f.get("tmpl") == "helper" for f in sc["funcs"]):
            c = copy.deepcopy(sc)
            c["modules"][m]["helpers"] = []
            yield c
        if mod.get("struct") and not any(f["mod"] == m and f.get("tmpl") == "struct" for f in sc["funcs"]):
            c = copy.deepcopy(sc)
            c["modules"][m]["struct"] = None
            yield c
        if mod.get("suffix"):
            c = copy.deepcopy(sc)
            c["modules"][m]["suffix"] = False
            yield c
    # 7. unused globals
    for gi, g in enumerate(sc["globals"]):
        if not any(f.get("glob") == g["name"] for f in sc["funcs"]):
            c = copy.deepcopy(sc)
            del c["globals"][gi]
            c["ginit"].pop(g["name"], None)
            yield c
    # 8. redundant imports, placement
    for m, mod in enumerate(sc["modules"]):
        for k in range(len(mod["imports"])):
            c = copy.deepcopy(sc)
            del c["modules"][m]["imports"][k]
            del c["modules"][m]["place"][k]
            if gen16.well_formed(c):
                yield c
        for k, p in enumerate(mod["place"]):
            if p != "first":
                c = copy.deepcopy(sc)
                c["modules"][m]["place"][k] = "first"
                yield c
    # 9. command line -> in-process, fewer added modules
    for i, s in enumerate(steps):
        if s.get("how") == "cli":
            c = copy.deepcopy(sc)
            c["steps"][i]["how"] = "inproc"
            yield c
        if s.get("via") == "nslr":
            c = copy.deepcopy(sc)
            c["steps"][i]["via"] = "inproc"
            yield c
        if s["op"] == "link" and s.get("loader") != "fs":
            c = copy.deepcopy(sc)
            c["steps"][i]["loader"] = "fs"
            yield c


def describe(sc):
    out = ["  --- minimised scenario ---"]
    for m, mod in enumerate(sc["modules"]):
        out.append(f"  module {mod['name']} (imports {[sc['modules'][x]['name'] for x in mod['imports']]}):")
        out += ["    | " + l for l in gen16.module_src(sc, m, 0, 0).splitlines()]
    for s in sc["steps"]:
        d = dict(s)
        if "mod" in d:
            d["mod"] = sc["modules"][d["mod"]]["name"] if d["mod"] < len(sc["modules"]) else d["mod"]
        if "add" in d:
            d["add"] = [sc["modules"][x]["name"] for x in d["add"] if x < len(sc["modules"])]
        out.append("  step " + core.canon(d))
    return "\n".join(out)


def sample_view(sc):
    return {
        "modules": {mod["name"]: gen16.module_src(sc, m, 0, 0) for m, mod in enumerate(sc["modules"])},
        "one_module_reference": gen16.single_src(sc, 0, {}),
        "steps": sc["steps"],
        "history": sc["hist"],
        "swarm": sc["swarm"],
    }


# ------------------------------------------------------------------ evidence


def summarize(results):
    tot = {}
    abstract = set()
    distinct = set()
    verdicts = {}
    for r in results:
        verdicts[r.get("verdict")] = verdicts.get(r.get("verdict"), 0) + 1
        core.merge_counts(tot, r.get("stats"))
        if r.get("abstract"):
            abstract.add(r["abstract"])
        if r.get("verdict") == "ok" and r.get("nontrivial"):
            distinct.add(r.get("sc_digest"))
    return {
        "verdicts": verdicts,
        "counters": tot,
        "distinct_link_schedules": len(abstract),
        "distinct_nontrivial": len(distinct),
    }


RULE = (
    "one case = one generated program PI (3-8 functions, acyclic call graph, module-owned globals, module-local "
    "struct types, overloaded non-exported helpers) + one partition into 2-5 modules forming an import DAG + the "
    "text layout of every module (imports first / between / after functions) + a seeded schedule of compiles "
    "(topological order, in-process or nslc.py child with its own hash seed), re-compilations, links (add set and "
    "order, loader kind, in-process or nslr.py child), duplicate-definition steps and a second store generation; "
    "every linked program is compared with PI compiled as one module on a seeded invocation history; non-trivial = "
    "at least one link completed with >=1 module loaded through an import and its behaviour compared; distinct = "
    "distinct scenario digests"
)

ASSUMPTIONS = [
    "the one-module compilation of PI is the reference (self-consistency): a defect shared by both sides is invisible",
    "cross-module references are calls of exported functions with scalar parameters and uses of globals declared in "
    "a directly imported module; struct types and non-exported helpers stay module-local",
    "when the host adds a module that an added module also imports, both a program equal to the reference and a "
    "duplicate-definition rejection are accepted (the statement allows both readings)",
    "in-process steps run under the harness interpreter's pinned hash seed; set-iteration orders are varied through "
    "module names and, in command-line steps, through explicit PYTHONHASHSEED values",
    "sampling, not proof: holds for the seeds run",
]

COMPONENTS = {
    "real": [
        "nsl.Compiler.Compiler (parser import productions, ComputeTypes import registration, LowerToIR metadata)",
        "pickle files in a private store directory",
        "nsl.LinearIR.FilesystemModuleLoader / MemoryModuleLoader / Linker / Program",
        "nsl.VM.VirtualMachine",
        "nslc.py and nslr.py as child processes (share of runs)",
    ],
    "stub": ["CountingLoader (records Load(name), delegates)", "host / scheduler (harness)", "store directory under /dev/shm"],
}
