"""Chunk worker: a fresh interpreter (exec'ed, not forked - forked siblings
contend badly on copy-on-write faults in this sandbox) that executes one chunk
of runs and exits.  Job on stdin, results on stdout, both JSON."""
import importlib
import json
import os
import sys


def main():
    job = json.loads(sys.stdin.buffer.read())
    out_fd = os.dup(1)
    # whatever the code under test prints must not corrupt the result stream
    devnull = os.open(os.devnull, os.O_WRONLY)
    os.dup2(devnull, 1)
    from . import core, repo

    core._SCRATCH = job["env"]["scratch"]  # owned (and removed) by the parent
    repo.activate(job["env"]["tree"])
    mod = importlib.import_module(job["module"])
    try:
        res = core._chunk_body((mod, job["base_seed"], job["idxs"], job["tier"], job["env"]))
    except BaseException as e:
        import traceback

        res = {"error": "".join(traceback.format_exception(type(e), e, e.__traceback__))[-2000:]}
    with os.fdopen(out_fd, "wb") as f:
        f.write(core.canon(res).encode())


if __name__ == "__main__":
    main()
