"""Bootstrap of a simulated OS process that runs one of the repository's real
driver scripts (nslc.py, nslr.py) or a harness job script under I/O seams.

    python boot.py <plan.json> <script> [args...]

The plan names the store directory and the *legal* I/O behaviours to apply to
binary files inside it: raw reads return at most `short_read` bytes, raw
writes accept at most `short_write` bytes, buffered layers use `bufsize`.
POSIX allows all of them.  For beyond-statement probes only: `enospc_at`
(ENOSPC once that many bytes were written) and `kill_at` (the process dies at
that byte).  Counters of what actually fired are printed to stderr as one
line `STATS {...}` when the process ends.
"""
import builtins
import errno
import io
import json
import os
import runpy
import sys

with open(sys.argv[1]) as _f:
    plan = json.load(_f)
script = sys.argv[2]
sys.argv = [script] + sys.argv[3:]
# as if the script had been started directly: its own directory heads sys.path (harness modules
# named like a product module must not shadow it)
sys.path[0] = os.path.dirname(os.path.abspath(script))
store = os.path.realpath(plan["store"])
real_open = builtins.open
stats = {"raw_writes": 0, "bytes_written": 0, "short_writes": 0, "raw_reads": 0, "short_reads": 0, "bytes_read": 0,
         "files_opened": 0, "fault": None}


def _emit():
    try:
        sys.stderr.write("STATS " + json.dumps(stats) + "\n")
        sys.stderr.flush()
    except Exception:
        pass


class SimRaw(io.FileIO):
    def __init__(self, path, mode):
        super().__init__(path, mode)
        self._w = 0

    def write(self, b):
        b = bytes(b)
        n = len(b)
        kill = plan.get("kill_at")
        if kill is not None and self._w + n >= kill:
            super().write(b[: max(0, kill - self._w)])
            stats["fault"] = "kill"
            _emit()
            os._exit(137)
        lim = plan.get("enospc_at")
        if lim is not None and self._w + n > lim:
            k = max(0, lim - self._w)
            if k:
                super().write(b[:k])
                self._w += k
            stats["fault"] = "enospc"
            raise OSError(errno.ENOSPC, "No space left on device (injected)")
        sw = plan.get("short_write")
        if sw and n > sw:
            n = sw
            stats["short_writes"] += 1
        r = super().write(b[:n])
        self._w += r
        stats["raw_writes"] += 1
        stats["bytes_written"] += r
        return r

    def readinto(self, b):
        c = plan.get("short_read")
        stats["raw_reads"] += 1
        if c and len(b) > c:
            stats["short_reads"] += 1
            r = super().readinto(memoryview(b)[:c])
        else:
            r = super().readinto(b)
        stats["bytes_read"] += r or 0
        return r

    def read(self, size=-1):
        if size is None or size < 0:
            return self.readall()
        buf = bytearray(size)
        n = self.readinto(buf)
        return bytes(buf[: n or 0])

    def readall(self):
        out = bytearray()
        while True:
            chunk = bytearray(plan.get("short_read") or 65536)
            n = self.readinto(chunk)
            if not n:
                break
            out += chunk[:n]
        return bytes(out)


def sim_open(file, mode="r", buffering=-1, *a, **kw):
    try:
        p = os.path.realpath(os.fspath(file))
    except TypeError:
        return real_open(file, mode, buffering, *a, **kw)
    if p.startswith(store + os.sep) and "b" in mode:
        stats["files_opened"] += 1
        raw = SimRaw(p, mode.replace("b", ""))
        bufsize = plan.get("bufsize") or io.DEFAULT_BUFFER_SIZE
        if "+" in mode:
            return io.BufferedRandom(raw, bufsize)
        if "r" in mode:
            return io.BufferedReader(raw, bufsize)
        return io.BufferedWriter(raw, bufsize)
    return real_open(file, mode, buffering, *a, **kw)


builtins.open = sim_open
io.open = sim_open
import pathlib  # noqa: E402

_orig_path_open = pathlib.Path.open


def _path_open(self, mode="r", buffering=-1, encoding=None, errors=None, newline=None):
    if "b" in mode:
        return sim_open(self, mode, buffering)
    return _orig_path_open(self, mode, buffering, encoding, errors, newline)


pathlib.Path.open = _path_open

try:
    runpy.run_path(script, run_name="__main__")
except SystemExit:
    # flush what the driver left buffered exactly as interpreter shutdown would,
    # then report; the exit code is preserved
    _emit()
    raise
_emit()
