import json
NA = {
 "C01": "VM result and final globals are a pure function of (source, arguments, initial globals): no schedule, clock, I/O, fault or interleaving for a simulator to own.",
 "C02": "Pure function of (source, optimise flag, inputs); the two optimisation settings are an input, not an environment a simulator drives.",
 "C03": "Activations nest exactly as the program dictates inside one synchronous Invoke; there is no scheduler choice in a call stack. Pure function of (program, arguments).",
 "C04": "Value semantics of vectors/matrices inside one invocation: pure function of (program, inputs).",
 "C05": "'accepted => no internal error' over (program, inputs, flag): pure. (Defined run-time failures inside histories are used as a fault kind by C15, which makes no C05 claim.)",
 "C06": "Agreement of two deterministic evaluators on (program, input): pure; no wasm runtime is installed either.",
 "C07": "Validity of the bytes of one emitted module: pure function of the program.",
 "C08": "Grouping is a function of the token sequence: pure.",
 "C09": "A finite function table on (operator, type, type): enumeration, not simulation.",
 "C10": "A function of (overload set, argument types); declaration order is a permutation of the input text, not a schedule.",
 "C11": "Accept/reject is a function of the syntax tree (each Compiler() has fresh validator state).",
 "C12": "Accept/reject is a function of the syntax tree.",
 "C13": "Accept/reject is a function of the syntax tree and constant indices.",
 "C14": "A static predicate on the IR of one compilation: pure.",
 "C19": "A function of one integer / string / payload: pure.",
 "C20": "A function of the source text and an offset: pure.",
}
checks = {
 "C15": dict(text="Seeded exploration: thousands of generated programs (scalars, arrays, vectors as values, matrices, nested structs and arrays, pure / middle / parameter-mutating helpers, bounded recursion; one module or a library + main pair with locals shadowing imported globals) x seeded interleaved histories of host operations on 1-4 VMs of one or two Programs, real compiler/linker/VM; every global of every live VM is compared with an executable reference state machine after every event; defined run-time failures are injected inside invocations (also 30 activations deep, many per history); host-owned vector objects are passed again by identity; late VMs are inspected before their globals are set; invocations with an omitted argument are judged against a clean-room twin VM; per-invocation liveness budget. Evidence for the seeds run, not proof.",
             note="Trusts the reference interpreter sim/lang.py and the restriction of the program family documented in DESIGN.md (C15).",
             tech="deterministic simulation: seeded multi-VM operation histories with injected in-invocation failures vs. reference state machine"),
 "C16": dict(text="Seeded exploration: thousands of generated programs (exported functions, free overload families with up to 12 parameters, module-local helpers and structs, scalar / array / vector / struct globals used across modules) x partitions into 2-7 modules forming import DAGs (chains, diamonds, fan-in, umbrella modules without functions) x module names (also near-identical families) x text layouts (imports first / between / after, repeated) x seeded schedules on a private simulated module store: compiles (in-process and real nslc.py children with their own hash seeds), re-compilations before and between links, links under several add sets/orders and loader kinds (own loader object, the Linker's default loader, memory loaders, nslr.py - also started through a directory holding other builds), duplicate-definition steps and a second store generation with rotated names. Every linked program is compared with the same functions compiled as one module; every Load(name) is logged (exactly-once); canonical programs are compared across add orders; duplicates must be rejected; programs linked earlier are re-observed and a VM of them is kept in use across later links; Link() has a step budget. Evidence for the seeds run, not proof.",
             note="Self-consistency oracle: the one-module compilation is the reference. Cross-module references restricted to exported functions with scalar parameters and globals of directly imported modules. Four genuine defects found by this check were repaired in /repo (known_findings.json, status fixed).",
             tech="deterministic simulation: seeded compile/store/link schedules over a simulated module store, hash seeds, exactly-once load log, refinement against the one-module program"),
 "C18": dict(text="Seeded exploration: each run schedules 2-6 simulated OS processes (real child interpreters, one at a time), each with its own PYTHONHASHSEED, private working-tree copy whose PLY parser-table cache is valid / absent / stale / unwritable, cwd, and a history of 5-40 compilations with a fresh Compiler() per job over a corpus that includes rejected, raising and sys.exit-ing sources; a history check requires every observation (outcome class, SHA-256 of IR listing and wasm bytes) of one (source, options) key to be equal across positions, predecessors, processes, hash seeds, cache states and cwds. Evidence for the seeds run, not proof.",
             note="Heap addresses are not behind a seam (address-ordered iteration shows only statistically across processes). Exception messages are not compared. Torn table files are a non-judged probe.",
             tech="deterministic simulation: seeded compilation histories in simulated processes x hash seeds x parser-table-cache states; history check that all observations of one key agree"),
 "C17": dict(text="Seeded exploration: each run is a history of writes and reads over a private simulated store: the real nslc.py as writer process (own PYTHONHASHSEED, legal short writes and 16 B..64 KiB buffers injected at the open() seam) or in-process compile+dump, and the real FilesystemModuleLoader in reader processes (another hash seed, short raw reads, cwd inside or outside the store, name with or without .nslir) or in-process; names are overwritten with other programs between reads. A reference model maps each file name to its last completed write; every load is compared - listing with function order, globals, imports, metadata signatures, VM results and final globals of every exported function on seeded type-correct inputs - with a fresh compilation of the model's entry, at both optimisation levels. Evidence for the seeds run, not proof.",
             note="Programs: /verif corpus (the 51 programs of tests/test_vm.py, stdlib, import-using sources) plus generated ones; only accepted programs are judged. ENOSPC / killed writers are non-judged probes (C17 does not quantify over faults). One known finding (C17-D5, known_findings.json): functions with ~200+ sequential branches cannot be pickled (RecursionError); its witness is re-executed every run and reported as KNOWN-FINDING.",
             tech="deterministic simulation: writer/reader processes over a simulated store with legal short reads/writes, hash seeds and overwrite histories vs. a last-write reference model"),
}
m = {
 "version": 1,
 "setup_cmd": "/venv/bin/python -c \"import ply, sys; assert sys.version_info[:2] >= (3, 12)\"",
 "hooks": {"guard": "ANTERU_NSL_VERIF", "enable": "no hooks: every seam is taken from outside (Linker(loader=...), cwd, open() wrappers in simulated processes, PYTHONHASHSEED, sys.monitoring)", "baseline_off_cmd": "cd /repo && /venv/bin/python -m pytest -ra -q -p no:cacheprovider --timeout=900 --continue-on-collection-errors", "source_commits": [], "add_only": True},
 "engines": [{"name": "nslsim", "path": "sim/", "serves_properties": sorted(checks), "kind_free_text": "deterministic simulator: seeded scenario generation, scenario-as-data execution in pristine processes, reference models, delta-debugging shrinker, replay files"}],
 "checks": [
  {"property_id": k, "quick_cmd": f"./check {k} --tier quick", "thorough_cmd": f"./check {k} --tier thorough",
   "evidence_file": f"evidence/{k}.json", "replay_cmd_template": f"./check {k} --replay {{path}}", "engine": "nslsim",
   "level_claimed": {"category": "exploration", "text": v["text"], "design_ref": f"DESIGN.md section 3 / {k}"},
   "level_note": v["note"], "technique": v["tech"]} for k, v in sorted(checks.items())],
 "not_applicable": [{"property_id": k, "reason": v} for k, v in sorted(NA.items())] + [
   {"property_id": k, "reason": "simulation check designed (DESIGN.md section 3) but not built yet in this commit"} for k in ("C16","C17","C18") if k not in checks],
 "notes": "Technique: deterministic simulation with fault injection. See DESIGN.md.",
}
json.dump(m, open("/verif/MANIFEST.json","w"), indent=1)
