#!/bin/bash
# tools/eval_benign_wt.sh <property> <patch.diff> [check args]: like eval_benign.sh, but never touches /repo:
# the patch is applied to a scratch worktree of /repo HEAD and the check is pointed at it with NSLSIM_REPO.
# Expected: tests green, check exits 0 (or 2 = HARNESS-ERROR when the change alters the host API itself).
set -u
PROP=$1; PATCH=$(realpath "$2"); shift 2
WT=/tmp/wt/evalbwt-$$
git -C /repo worktree add --detach "$WT" HEAD -q || exit 3
trap 'git -C /repo worktree remove --force "$WT" 2>/dev/null' EXIT
cd "$WT"; git apply "$PATCH" || { echo "PATCH DOES NOT APPLY"; exit 3; }
echo "== tests with the change: $(timeout 600 /venv/bin/python -m pytest -q -p no:cacheprovider 2>&1 | tail -1)"
rm -rf "$WT"/nsl/__pycache__ "$WT"/nsl/*/__pycache__ "$WT"/.pytest_cache
cd /verif
RD=$(mktemp -d /dev/shm/benign-replays-XXXX)
NSLSIM_REPO="$WT" NSLSIM_REPLAY_DIR=$RD timeout 1800 ./check "$PROP" --tier quick --no-evidence "$@" 2>&1 | grep -v "^    |" | grep -E "oracle=|VIOLATION|KNOWN|HARNESS| runs \(" | cut -c1-600
echo "== check exit ${PIPESTATUS[0]}"
rm -rf "$RD"
