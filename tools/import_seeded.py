#!/usr/bin/env python3
"""tools/import_seeded.py <agent-out-dir> <k> <seeded-id> <property> <verdict> <note>
Copy one independently written change into /verif/seeded/<id>/ (patch.diff, demo.py, meta.json)."""
import json
import os
import shutil
import sys

src, k, sid, prop, verdict, note = sys.argv[1:7]
dst = os.path.join(os.path.dirname(os.path.dirname(os.path.abspath(__file__))), "seeded", sid)
os.makedirs(dst, exist_ok=True)
shutil.copy(os.path.join(src, f"patch{k}.diff"), os.path.join(dst, "patch.diff"))
shutil.copy(os.path.join(src, f"demo{k}.py"), os.path.join(dst, "demo.py"))
with open(os.path.join(src, "meta.json")) as f:
    metas = json.load(f)
m = next(x for x in metas if x["patch"] == f"patch{k}.diff")
meta = {
    "id": sid,
    "breaks_property": prop,
    "written_by": "fresh sub-agent that saw only the property text and a scratch worktree of /repo",
    "summary": m.get("summary"),
    "why_realistic": m.get("why_realistic"),
    "needs_to_manifest": m.get("needs_to_manifest"),
    "confirmed_by_hand": "tools/eval_seeded.sh: in a scratch worktree of /repo HEAD the demo exits 0 without the patch, the "
                         "82 tests pass with it, the demo exits 1 with it",
    "what_i_ran": f"git -C /repo apply seeded/{sid}/patch.diff; ./check {prop} --tier quick; git -C /repo checkout -- .",
    "check_verdict": verdict,
    "note": note,
}
with open(os.path.join(dst, "meta.json"), "w") as f:
    json.dump(meta, f, indent=1)
print("imported", dst)
