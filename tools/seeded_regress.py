#!/usr/bin/env python3
"""tools/seeded_regress.py [id-prefix ...]
Apply every independently seeded change under /verif/seeded to /repo in turn
(git apply), run the quick check of the property it breaks, undo it straight
afterwards (git checkout -- .), and print which were caught.  Exit 1 if one is
missed.  /repo must be clean; nothing is committed there."""
import json
import os
import subprocess
import sys
import tempfile
import time

VERIF = os.path.dirname(os.path.dirname(os.path.abspath(__file__)))
sel = [a for a in sys.argv[1:] if not a.startswith("--")]
# --worktree: apply the patches to a scratch worktree of /repo HEAD and point the checks at it
# (NSLSIM_REPO) instead of touching /repo - for use while something else is reading /repo
TARGET = "/repo"
ENV = {}
if "--worktree" in sys.argv:
    TARGET = tempfile.mkdtemp(prefix="seeded-wt-", dir="/tmp")
    os.rmdir(TARGET)
    subprocess.run(["git", "-C", "/repo", "worktree", "add", "--detach", TARGET, "HEAD", "-q"], check=True)
    ENV = {"NSLSIM_REPO": TARGET}
    import atexit

    atexit.register(lambda: subprocess.run(["git", "-C", "/repo", "worktree", "remove", "--force", TARGET]))
if subprocess.run(["git", "-C", TARGET, "status", "--short"], capture_output=True, text=True).stdout.strip():
    sys.exit(TARGET + " is not clean")
missed = 0
rows = []
for sid in sorted(os.listdir(os.path.join(VERIF, "seeded"))):
    d = os.path.join(VERIF, "seeded", sid)
    if not os.path.isdir(d) or (sel and not any(sid.startswith(s) for s in sel)):
        continue
    meta = json.load(open(os.path.join(d, "meta.json")))
    prop = meta["breaks_property"]
    rd = tempfile.mkdtemp(prefix="seeded-", dir="/dev/shm" if os.path.isdir("/dev/shm") else None)
    t0 = time.time()
    try:
        subprocess.run(["git", "-C", TARGET, "apply", os.path.join(d, "patch.diff")], check=True)
        p = subprocess.run([os.path.join(VERIF, "check"), prop, "--tier", "quick", "--no-evidence", "--no-shrink"],
                           cwd=VERIF, env=dict(os.environ, NSLSIM_REPLAY_DIR=rd, **ENV), capture_output=True, text=True)
    finally:
        subprocess.run(["git", "-C", TARGET, "checkout", "--", "."], check=True)
        subprocess.run(["rm", "-rf", rd])
    orc = [l.strip().split(" detail=")[0] for l in p.stdout.splitlines() if l.strip().startswith("oracle=")]
    runs = [l for l in p.stdout.splitlines() if " runs (" in l]
    ok = p.returncode == 1 and "VIOLATION" in p.stdout
    if meta.get("expected") == "not-caught":
        # kept for the record: outside what the property fixes / what the check models (see meta.json)
        rows.append((sid, "caught after all" if ok else "not caught (as recorded in meta.json, by design)", f"{time.time() - t0:.0f}s", "", ""))
        print(*rows[-1], sep=" | ", flush=True)
        continue
    missed += 0 if ok else 1
    rows.append((sid, "CAUGHT" if ok else f"MISSED (exit {p.returncode})", f"{time.time() - t0:.0f}s", "; ".join(orc)[:150],
                 runs[-1].split(":")[1].split(" in ")[0].strip() if runs else ""))
    print(*rows[-1], sep=" | ", flush=True)
n_expected = sum(1 for r in rows if r[1].startswith(("CAUGHT", "MISSED")))
print(f"{n_expected - missed} of {n_expected} seeded changes caught ({len(rows) - n_expected} more recorded as not caught by design)")
sys.exit(1 if missed else 0)
