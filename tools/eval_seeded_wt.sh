#!/bin/bash
# tools/eval_seeded_wt.sh <property> <patch.diff> <demo.py> [check args]: like eval_seeded.sh, but never touches /repo:
# the patch is applied to a scratch worktree of /repo HEAD and the check is pointed at it with NSLSIM_REPO.
set -u
PROP=$1; PATCH=$(realpath "$2"); DEMO=$(realpath "$3"); shift 3
WT=/tmp/wt/evalwt-$$
git -C /repo worktree add --detach "$WT" HEAD -q || exit 3
trap 'git -C /repo worktree remove --force "$WT" 2>/dev/null' EXIT
cd "$WT"
timeout 300 /venv/bin/python "$DEMO" >/tmp/wt/evalwt-$$.log 2>&1; echo "== demo on unchanged code: exit $? ($(tail -1 /tmp/wt/evalwt-$$.log | cut -c1-120))"
git apply "$PATCH" || { echo "PATCH DOES NOT APPLY"; exit 3; }
echo "== tests with the change: $(timeout 600 /venv/bin/python -m pytest -q -p no:cacheprovider 2>&1 | tail -1)"
timeout 300 /venv/bin/python "$DEMO" >/tmp/wt/evalwt-$$.log 2>&1; echo "== demo with the change: exit $? ($(tail -1 /tmp/wt/evalwt-$$.log | cut -c1-160))"
rm -f /tmp/wt/evalwt-$$.log; rm -rf "$WT"/nsl/__pycache__ "$WT"/nsl/*/__pycache__
cd /verif
RD=$(mktemp -d /dev/shm/seeded-replays-XXXX)
NSLSIM_REPO="$WT" NSLSIM_REPLAY_DIR=$RD timeout 1800 ./check "$PROP" --tier quick --no-evidence --no-shrink "$@" 2>&1 | grep -v "^    |" | grep -E "oracle=|VIOLATION|HARNESS| runs \(" | cut -c1-420
rm -rf "$RD"
