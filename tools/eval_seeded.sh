#!/bin/bash
# tools/eval_seeded.sh <property> <patch.diff> <demo.py> [extra check args...]
# 1. confirm the seeded change in a scratch worktree: tests pass with it, demo fails with it, demo passes without
# 2. apply it to /repo, run the property's check, undo it straight afterwards
set -u
PROP=$1; PATCH=$(realpath "$2"); DEMO=$(realpath "$3"); shift 3
WT=/tmp/wt/eval-$$
git -C /repo worktree add --detach "$WT" HEAD -q || exit 3
cleanup() { git -C /repo checkout -- . 2>/dev/null; git -C /repo worktree remove --force "$WT" 2>/dev/null; }
trap cleanup EXIT
cd "$WT"
echo "== demo on unchanged code"; timeout 300 /venv/bin/python "$DEMO" >/tmp/wt/eval-$$.log 2>&1; echo "   exit $? ($(tail -1 /tmp/wt/eval-$$.log | cut -c1-150))"
git apply "$PATCH" || { echo "PATCH DOES NOT APPLY"; exit 3; }
echo "== tests with the change"; timeout 600 /venv/bin/python -m pytest -q -p no:cacheprovider 2>&1 | tail -1
echo "== demo with the change"; timeout 300 /venv/bin/python "$DEMO" >/tmp/wt/eval-$$.log 2>&1; echo "   exit $? ($(tail -1 /tmp/wt/eval-$$.log | cut -c1-150))"
rm -f /tmp/wt/eval-$$.log
cd /verif
if [ -n "$(git -C /repo status --short)" ]; then echo "/repo is not clean"; exit 3; fi
git -C /repo apply "$PATCH" || exit 3
echo "== ./check $PROP on /repo with the change applied"
RD=$(mktemp -d /dev/shm/seeded-replays-XXXX)
NSLSIM_REPLAY_DIR=$RD timeout 1800 ./check "$PROP" --tier quick --no-evidence "$@" 2>&1 | grep -v "^    |" | grep -E "oracle=|VIOLATION|KNOWN|HARNESS| runs \(" | cut -c1-420
git -C /repo checkout -- .
echo "== /repo restored: $(git -C /repo status --short | wc -l) dirty files"
for f in $RD/*.json; do [ -f "$f" ] && { echo "== replay of $(basename $f) on the unchanged tree:"; ./check "$PROP" --replay "$f" 2>&1 | tail -1; }; done
rm -rf "$RD"
