#!/bin/bash
# tools/eval_benign.sh <property> <patch.diff>: a behaviour-preserving change must keep the tests green
# and must NOT make the property's check alarm (exit 0 expected).
set -u
PROP=$1; PATCH=$(realpath "$2"); shift 2
WT=/tmp/wt/evalb-$$
git -C /repo worktree add --detach "$WT" HEAD -q || exit 3
cleanup() { git -C /repo checkout -- . 2>/dev/null; git -C /repo worktree remove --force "$WT" 2>/dev/null; }
trap cleanup EXIT
cd "$WT"; git apply "$PATCH" || { echo "PATCH DOES NOT APPLY"; exit 3; }
echo "== tests with the change: $(timeout 600 /venv/bin/python -m pytest -q -p no:cacheprovider 2>&1 | tail -1)"
cd /verif
[ -n "$(git -C /repo status --short)" ] && { echo "/repo is not clean"; exit 3; }
git -C /repo apply "$PATCH" || exit 3
RD=$(mktemp -d /dev/shm/benign-replays-XXXX)
NSLSIM_REPLAY_DIR=$RD timeout 1800 ./check "$PROP" --tier quick --no-evidence "$@" 2>&1 | grep -v "^    |" | grep -E "oracle=|VIOLATION|KNOWN|HARNESS| runs \(" | cut -c1-600
git -C /repo checkout -- .
echo "== /repo restored: $(git -C /repo status --short | wc -l) dirty files"
rm -rf "$RD"
