#!/usr/bin/env python3
"""tools/seeded_rates.py <id-prefix> [...]: detection *rate* of the quick tier for seeded changes:
the patch is applied to a scratch worktree of /repo HEAD (not to /repo), the check runs against it
with NSLSIM_REPO and --keep-going, and the number of violating runs is reported."""
import json
import os
import re
import subprocess
import sys
import tempfile

VERIF = os.path.dirname(os.path.dirname(os.path.abspath(__file__)))
wt = tempfile.mkdtemp(prefix="rates-wt-", dir="/tmp")
os.rmdir(wt)
subprocess.run(["git", "-C", "/repo", "worktree", "add", "--detach", wt, "HEAD", "-q"], check=True)
try:
    for sid in sorted(os.listdir(os.path.join(VERIF, "seeded"))):
        d = os.path.join(VERIF, "seeded", sid)
        if not os.path.isdir(d) or not any(sid.startswith(s) for s in sys.argv[1:]):
            continue
        prop = json.load(open(os.path.join(d, "meta.json")))["breaks_property"]
        subprocess.run(["git", "-C", wt, "apply", os.path.join(d, "patch.diff")], check=True)
        rd = tempfile.mkdtemp(prefix="rates-", dir="/dev/shm")
        try:
            p = subprocess.run([os.path.join(VERIF, "check"), prop, "--tier", "quick", "--no-evidence", "--no-shrink",
                                "--keep-going"], cwd=VERIF, env=dict(os.environ, NSLSIM_REPO=wt, NSLSIM_REPLAY_DIR=rd),
                               capture_output=True, text=True)
        finally:
            subprocess.run(["git", "-C", wt, "checkout", "--", "."], check=True)
            subprocess.run(["rm", "-rf", rd])
        m = re.search(r"(\d+) runs \((\d+) evaluated.*?(\d+) violating", p.stdout)
        print(sid, "|", f"{m.group(3)} of {m.group(1)} runs violate" if m else p.stdout[-300:], flush=True)
finally:
    subprocess.run(["git", "-C", "/repo", "worktree", "remove", "--force", wt])
