#!/usr/bin/env python3
"""tools/benign_regress.py [id-prefix ...]
Apply every behaviour-preserving change under /verif/benign to /repo in turn,
run the quick check of the property it is about, undo it.  Every check must
stay quiet (exit 0): an alarm here is a false alarm of the harness."""
import json
import os
import subprocess
import sys
import tempfile
import time

VERIF = os.path.dirname(os.path.dirname(os.path.abspath(__file__)))
sel = [a for a in sys.argv[1:] if not a.startswith("--")]
TARGET = "/repo"
ENV = {}
if "--worktree" in sys.argv:  # do not touch /repo: scratch worktree + NSLSIM_REPO
    TARGET = tempfile.mkdtemp(prefix="benign-wt-", dir="/tmp")
    os.rmdir(TARGET)
    subprocess.run(["git", "-C", "/repo", "worktree", "add", "--detach", TARGET, "HEAD", "-q"], check=True)
    ENV = {"NSLSIM_REPO": TARGET}
    import atexit

    atexit.register(lambda: subprocess.run(["git", "-C", "/repo", "worktree", "remove", "--force", TARGET]))
if subprocess.run(["git", "-C", TARGET, "status", "--short"], capture_output=True, text=True).stdout.strip():
    sys.exit(TARGET + " is not clean")
bad = 0
n = 0
for bid in sorted(os.listdir(os.path.join(VERIF, "benign"))):
    d = os.path.join(VERIF, "benign", bid)
    if not os.path.isdir(d) or (sel and not any(bid.startswith(s) for s in sel)):
        continue
    prop = json.load(open(os.path.join(d, "meta.json")))["property_still_holds"]
    rd = tempfile.mkdtemp(prefix="benign-", dir="/dev/shm" if os.path.isdir("/dev/shm") else None)
    t0 = time.time()
    try:
        subprocess.run(["git", "-C", TARGET, "apply", os.path.join(d, "patch.diff")], check=True)
        p = subprocess.run([os.path.join(VERIF, "check"), prop, "--tier", "quick", "--no-evidence", "--no-shrink"],
                           cwd=VERIF, env=dict(os.environ, NSLSIM_REPLAY_DIR=rd, **ENV), capture_output=True, text=True)
    finally:
        subprocess.run(["git", "-C", TARGET, "checkout", "--", "."], check=True)
        subprocess.run(["rm", "-rf", rd])
    n += 1
    ok = p.returncode == 0
    bad += 0 if ok else 1
    tail = [l for l in p.stdout.splitlines() if " runs (" in l or l.startswith(("VIOLATION", "HARNESS"))]
    print(bid, "QUIET" if ok else f"ALARM (exit {p.returncode})", f"{time.time() - t0:.0f}s", " | ".join(tail)[:300], sep=" | ", flush=True)
print(f"{n - bad} of {n} behaviour-preserving changes left the checks quiet")
sys.exit(1 if bad else 0)
